#!/bin/bash
# seeded_all.sh : every seeded change against the quick check of its own property; one line each
# in seeded/regression.log (CAUGHT / MISSED / NOAPPLY). Patches /repo and undoes it: do not run
# anything else against /repo meanwhile.
cd /verif
LOG=seeded/regression.log
[ -n "$1" ] || : > $LOG
EVB=$(mktemp -d /dev/shm/evidence-keep.XXXX); cp -a evidence/. $EVB/
SEL="$@"
for d in seeded/*/; do
  id=$(basename $d)
  if [ -n "$SEL" ] && ! echo " $SEL " | grep -q " $id "; then continue; fi
  prop=${id%%[-r]*}; prop=${id:0:3}
  patch=/verif/${d%/}/patch.diff
  # pre.diff: puts back the code the change was written for (a later repair restructured it)
  [ -f /verif/${d%/}/pre.diff ] && git -C /repo apply /verif/${d%/}/pre.diff
  if ! git -C /repo apply --check $patch 2>/dev/null; then
    git -C /repo checkout -- .
    echo "$id $prop NOAPPLY (see meta.json)" >> $LOG; continue
  fi
  git -C /repo apply $patch
  out=$(./check $prop quick 2>&1); rc=$?
  git -C /repo checkout -- .
  if [ $rc -eq 1 ] && echo "$out" | grep -q "^VIOLATION property=$prop"; then
    echo "$id $prop CAUGHT $(echo "$out" | grep -m1 signature | cut -c1-120)" >> $LOG
  else
    echo "$id $prop MISSED rc=$rc $(echo "$out" | tail -1 | cut -c1-120)" >> $LOG
  fi
done
cp -a $EVB/. evidence/; rm -rf $EVB
git -C /repo status --short | head -3
grep -c CAUGHT $LOG; grep -v CAUGHT $LOG
