#!/bin/bash
# benign_run.sh <benign-id> [check-id...] : apply a property-preserving change to /repo, run the quick
# checks (all 18 by default), undo. Any VIOLATION here is a false alarm of the machinery.
# Patches /repo and undoes it: do not run anything else against /repo meanwhile.
ID=$1; shift
CHECKS=${@:-C01 C02 C03 C04 C05 C06 C07 C08 C09 C10 C11 C12 C13 C14 C15 C16 C17 C18}
cd /verif
EVB=$(mktemp -d /dev/shm/evidence-keep.XXXX); cp -a evidence/. $EVB/
git -C /repo apply /verif/benign/$ID/patch.diff || { echo "patch does not apply"; exit 2; }
OUT=benign/$ID/results.txt; : > $OUT
for c in $CHECKS; do
  r=$(./check $c quick 2>&1); rc=$?
  echo "$c rc=$rc $(echo "$r" | grep -E "^OK|^VIOLATION|MACHINERY|machinery|^error" | head -3 | tr '\n' ' ' | cut -c1-300)" | tee -a $OUT
  if [ $rc -ne 0 ]; then echo "$r" | grep -A2 "^VIOLATION" | head -12 | cut -c1-600 >> benign/$ID/details-$c.txt; echo "$r" | tail -5 >> benign/$ID/details-$c.txt; fi
done
git -C /repo checkout -- .
cp -a $EVB/. evidence/; rm -rf $EVB
git -C /repo status --short | head -3
