#!/bin/bash
# Build the harness offline from files on disk (MANIFEST.setup_cmd).
set -eu
cd "$(dirname "$0")/harness"
export CARGO_NET_OFFLINE=true
export CARGO_TARGET_DIR="${CARGO_TARGET_DIR:-/verif/target}"
cargo build --release --offline
