#!/bin/bash
# Runs every thorough check in sequence from a snapshot (vp run), with its own target dir.
export CARGO_TARGET_DIR=/verif/target-bg
for p in "$@"; do
  s=$(date +%s)
  ./check $p thorough > thorough-$p.log 2>&1
  echo "$p exit=$? secs=$(( $(date +%s) - s )) $(tail -1 thorough-$p.log | cut -c1-150)"
done
