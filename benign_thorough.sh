#!/bin/bash
# benign_thorough.sh <benign-id> <check-id>... : thorough tiers against a property-preserving change,
# in a scratch copy (worktree of /repo + copy of the harness under /tmp/bx-<id>), so that /repo and
# /verif stay free. Results: benign/<id>/thorough.txt. Removes the scratch copy afterwards.
ID=$1; shift
S=/tmp/bx-$ID
rm -rf $S; mkdir -p $S/verif
git -C /repo worktree add --detach $S/repo HEAD >/dev/null 2>&1 || exit 2
git -C $S/repo apply /verif/benign/$ID/patch.diff || exit 2
cp -a /verif/harness /verif/check /verif/known_findings.jsonl /verif/properties.jsonl $S/verif/
mkdir -p $S/verif/evidence $S/verif/replays
sed -i "s|path = \"/repo\"|path = \"$S/repo\"|" $S/verif/harness/Cargo.toml
sed -i "s|/verif/target|$S/target|" $S/verif/harness/.cargo/config.toml
export CARGO_TARGET_DIR=$S/target VERIF_DIR=$S/verif
OUT=/verif/benign/$ID/thorough.txt
for c in "$@"; do
  s=$(date +%s)
  r=$($S/verif/check $c thorough 2>&1); rc=$?
  echo "$c rc=$rc secs=$(( $(date +%s) - s )) $(echo "$r" | grep -E "^OK|^VIOLATION|MACHINERY|machinery|^error" | head -3 | tr '\n' ' ' | cut -c1-300)" | tee -a $OUT
  [ $rc -ne 0 ] && { echo "$r" | grep -A2 "^VIOLATION" | head -12 | cut -c1-700; echo "$r" | tail -5; } >> /verif/benign/$ID/thorough-details-$c.txt
done
git -C /repo worktree remove --force $S/repo; rm -rf $S
