#!/bin/bash
# seeded_verify.sh <seed-id> <worktree> <demo-test-name>
# Confirms in the agent's scratch worktree: suite passes with the change, demo fails with / passes without.
set -u
ID=$1; WT=$2; DEMO=$3
OUT=/verif/seeded/$ID
mkdir -p $OUT
cd $WT || exit 2
git diff -- src > $OUT/patch.diff
[ -s $OUT/patch.diff ] || { echo "empty patch"; exit 2; }
cp OUT/meta.json $OUT/agent_meta.json 2>/dev/null
cp tests/$DEMO.rs $OUT/$DEMO.rs 2>/dev/null || cp OUT/demo.rs $OUT/$DEMO.rs
mkdir -p /tmp/demo-hold-$ID; mv tests/demo_*.rs /tmp/demo-hold-$ID/ 2>/dev/null
echo "== suite with change"
cargo nextest run --workspace --no-fail-fast --tool-config-file pb:/w/lib/nextest.toml --profile pb --test-threads 8 --offline 2>&1 | grep -E "Summary|FAIL" | sort -u | tee $OUT/suite_with_change.txt
cp $OUT/$DEMO.rs tests/$DEMO.rs
echo "== demo with change"
cargo test --offline --features verif_hooks --test $DEMO 2>&1 | grep -E "^test |test result|error" | tee $OUT/demo_with_change.txt
git apply -R $OUT/patch.diff
echo "== demo without change"
cargo test --offline --features verif_hooks --test $DEMO 2>&1 | grep -E "^test |test result|error" | tee $OUT/demo_without_change.txt
git apply $OUT/patch.diff
rm -rf /tmp/demo-hold-$ID
