//! Wrappers that run the real conserve operations, each in its own runtime, under `catch_unwind`.

use std::cell::RefCell;
use std::future::Future;
use std::panic::{catch_unwind, AssertUnwindSafe};
use std::path::Path;
use std::pin::Pin;
use std::sync::{Arc, Mutex};
use std::task::{Context, Poll};

use conserve::monitor::test::TestMonitor;
use conserve::transport::Transport;
use conserve::{
    Apath, Archive, BackupOptions, BandId, BandSelectionPolicy, DeleteOptions, Exclude,
    RestoreOptions, ValidateOptions,
};

use crate::hook::Icpt;

thread_local! {
    static LAST_PANIC: RefCell<Option<String>> = const { RefCell::new(None) };
    /// Depth of "running code under test" regions on this thread: panics there are verdicts and
    /// are recorded quietly; panics elsewhere are harness bugs and are printed.
    static IN_SUBJECT: std::cell::Cell<usize> = const { std::cell::Cell::new(0) };
}

pub struct SubjectGuard;

impl SubjectGuard {
    pub fn enter() -> SubjectGuard {
        IN_SUBJECT.with(|c| c.set(c.get() + 1));
        SubjectGuard
    }
}

impl Drop for SubjectGuard {
    fn drop(&mut self) {
        IN_SUBJECT.with(|c| c.set(c.get().saturating_sub(1)));
    }
}

/// Install a panic hook that records the message and location instead of printing.
pub fn install_quiet_panic_hook() {
    let verbose = std::env::var("VERIF_PANIC_VERBOSE").is_ok();
    std::panic::set_hook(Box::new(move |info| {
        let msg = if let Some(s) = info.payload().downcast_ref::<&str>() {
            s.to_string()
        } else if let Some(s) = info.payload().downcast_ref::<String>() {
            s.clone()
        } else {
            "panic".to_string()
        };
        let loc = info
            .location()
            .map(|l| format!("{}:{}", l.file(), l.line()))
            .unwrap_or_default();
        let in_subject = IN_SUBJECT.with(|c| c.get() > 0);
        let tokio_worker = std::thread::current().name().is_some_and(|n| n.starts_with("tokio-runtime"));
        if verbose || !(in_subject || tokio_worker) {
            eprintln!("vh: panic at {loc}: {msg}");
        }
        LAST_PANIC.with(|p| *p.borrow_mut() = Some(format!("{loc}: {msg}")));
        if !(in_subject || tokio_worker) {
            // A failure of the harness itself (typically: a fault-free operation needed to set a
            // scenario up did not work). If a violation has already been reported the verdict
            // stands; otherwise this is a machinery error, never a verdict.
            if crate::report::VIOLATIONS_PRINTED.load(std::sync::atomic::Ordering::SeqCst) > 0 {
                eprintln!("vh: stopping early: the harness could not go on after the violation(s) above");
                std::process::exit(1);
            }
            eprintln!("vh: machinery error, not a verdict");
            std::process::exit(2);
        }
    }));
}

pub fn take_last_panic() -> Option<String> {
    LAST_PANIC.with(|p| p.borrow_mut().take())
}

/// Future wrapper catching panics raised while polling, so the inner future is dropped inside the
/// runtime context.
struct CatchPanic<F>(Option<Pin<Box<F>>>);

impl<F: Future> Future for CatchPanic<F> {
    type Output = Result<F::Output, String>;
    fn poll(mut self: Pin<&mut Self>, cx: &mut Context<'_>) -> Poll<Self::Output> {
        let fut = self.0.as_mut().expect("polled after completion");
        match catch_unwind(AssertUnwindSafe(|| fut.as_mut().poll(cx))) {
            Ok(Poll::Pending) => Poll::Pending,
            Ok(Poll::Ready(v)) => {
                self.0 = None;
                Poll::Ready(Ok(v))
            }
            Err(_) => {
                let msg = take_last_panic().unwrap_or_else(|| "panic".into());
                // Drop the future here, inside the runtime context.
                let f = self.0.take();
                let _ = catch_unwind(AssertUnwindSafe(move || drop(f)));
                Poll::Ready(Err(msg))
            }
        }
    }
}

/// An installed interceptor together with its stop-the-world signalling.
#[derive(Clone)]
pub struct Hooked {
    pub icpt: Arc<dyn conserve::transport::verif::Interceptor>,
    pub notify: Arc<tokio::sync::Notify>,
    pub crashed: Arc<dyn Fn() -> bool + Send + Sync>,
}

impl Hooked {
    pub fn from_icpt(i: &Arc<Icpt>) -> Hooked {
        let i2 = i.clone();
        Hooked {
            icpt: i.clone(),
            notify: i.notify.clone(),
            crashed: Arc::new(move || i2.is_crashed()),
        }
    }
}

pub const NOHOOK: Option<&'static Hooked> = None;

pub trait AsHooked {
    fn hooked(&self) -> Option<Hooked>;
}

impl AsHooked for Option<&Arc<Icpt>> {
    fn hooked(&self) -> Option<Hooked> {
        self.map(Hooked::from_icpt)
    }
}

impl AsHooked for Option<&Hooked> {
    fn hooked(&self) -> Option<Hooked> {
        self.cloned()
    }
}

#[derive(Clone, Copy, Debug, PartialEq, Eq)]
pub enum Flavor {
    Current,
    Multi(usize),
    /// Current-thread runtime that is torn down the moment the operation returns, like a process
    /// that exits: tasks the operation spawned and left behind never run.
    CurrentExitAtOnce,
}

fn build_rt(flavor: Flavor) -> tokio::runtime::Runtime {
    match flavor {
        Flavor::Current | Flavor::CurrentExitAtOnce => tokio::runtime::Builder::new_current_thread()
            .enable_all()
            .build()
            .unwrap(),
        Flavor::Multi(n) => tokio::runtime::Builder::new_multi_thread()
            .worker_threads(n)
            .enable_all()
            .build()
            .unwrap(),
    }
}

/// How a driven operation ended.
#[derive(Debug, Clone, PartialEq, Eq)]
pub enum End<T> {
    Done(T),
    Panicked(String),
    Crashed,
}

impl<T> End<T> {
    pub fn panicked(&self) -> Option<&str> {
        match self {
            End::Panicked(s) => Some(s),
            _ => None,
        }
    }
}

/// Drive `fut` to completion on a fresh runtime. If an interceptor with a crash plan stops the
/// world, the future is dropped inside the runtime and the runtime is torn down without running
/// anything further (no destructor effect reaches storage: the interceptor keeps answering Crash).
thread_local! {
    static PLAIN_RT: RefCell<Option<tokio::runtime::Runtime>> = const { RefCell::new(None) };
}

pub fn drive<T, F>(flavor: Flavor, icpt: impl AsHooked, fut: F) -> End<T>
where
    F: Future<Output = T>,
{
    let icpt = icpt.hooked();
    // Un-hooked operations on the current-thread flavour reuse one runtime per worker thread
    // (building a runtime dominates the cost of the small operations of the input sweeps).
    let reuse = icpt.is_none() && flavor == Flavor::Current;
    let rt = if reuse {
        PLAIN_RT
            .with(|c| c.borrow_mut().take())
            .unwrap_or_else(|| build_rt(flavor))
    } else {
        build_rt(flavor)
    };
    let notify = icpt.as_ref().map(|i| i.notify.clone());
    let _subject = SubjectGuard::enter();
    let r = catch_unwind(AssertUnwindSafe(|| {
        rt.block_on(async {
            let guarded = CatchPanic(Some(Box::pin(fut)));
            match &notify {
                Some(n) => {
                    tokio::select! {
                        biased;
                        _ = n.notified() => None,
                        r = guarded => Some(r),
                    }
                }
                None => Some(guarded.await),
            }
        })
    }));
    let crashed = icpt.as_ref().is_some_and(|i| (i.crashed)());
    let mut outer_panic = false;
    let end = match r {
        Err(_) => {
            outer_panic = true;
            End::Panicked(take_last_panic().unwrap_or_else(|| "panic".into()))
        }
        Ok(None) => End::Crashed,
        Ok(Some(Err(msg))) => End::Panicked(msg),
        Ok(Some(Ok(v))) => {
            if crashed {
                End::Crashed
            } else {
                End::Done(v)
            }
        }
    };
    let mut drained = true;
    if flavor == Flavor::CurrentExitAtOnce {
        rt.shutdown_background();
        return end;
    }
    if !crashed {
        // Let tasks spawned from destructors (the GC lock's unlock-on-drop) finish.
        let r = catch_unwind(AssertUnwindSafe(|| {
            rt.block_on(async {
                for _ in 0..2000 {
                    if tokio::runtime::Handle::current().metrics().num_alive_tasks() == 0 {
                        return true;
                    }
                    if icpt.as_ref().is_some_and(|i| (i.crashed)()) {
                        return false;
                    }
                    tokio::task::yield_now().await;
                    tokio::time::sleep(std::time::Duration::from_micros(200)).await;
                }
                false
            })
        }));
        drained = r.unwrap_or(false);
    }
    if reuse && drained && !outer_panic {
        PLAIN_RT.with(|c| *c.borrow_mut() = Some(rt));
    } else {
        rt.shutdown_background();
    }
    end
}

pub fn transport_for(dir: &Path, icpt: impl AsHooked) -> Transport {
    let t = Transport::local(dir);
    match icpt.hooked() {
        Some(i) => t.with_interceptor(i.icpt.clone()),
        None => t,
    }
}

#[derive(Clone, Debug, PartialEq, Eq, Hash)]
pub struct BOpts {
    pub hunk: usize,
    pub block: usize,
    pub cap: u64,
    pub exclude: Vec<String>,
    /// Whether owners are recorded (the library's `BackupOptions.owner`).
    pub owner: bool,
}

impl BOpts {
    pub fn new(hunk: usize, block: usize, cap: u64) -> BOpts {
        BOpts {
            hunk,
            block,
            cap,
            exclude: vec![],
            owner: true,
        }
    }
    pub fn defaults() -> BOpts {
        BOpts::new(100_000, 20 << 20, 1 << 20)
    }
    pub fn tiny() -> BOpts {
        BOpts::new(1, 4, 8)
    }
    pub fn describe(&self) -> String {
        format!(
            "hunk={} block={} cap={}{}{}",
            self.hunk,
            self.block,
            self.cap,
            if self.exclude.is_empty() {
                String::new()
            } else {
                format!(" exclude={:?}", self.exclude)
            },
            if self.owner { "" } else { " owners-not-recorded" }
        )
    }
    pub fn to_json(&self) -> serde_json::Value {
        serde_json::json!({"hunk": self.hunk, "block": self.block, "cap": self.cap, "exclude": self.exclude, "owner": self.owner})
    }
    pub fn from_json(v: &serde_json::Value) -> BOpts {
        BOpts {
            hunk: v["hunk"].as_u64().unwrap() as usize,
            block: v["block"].as_u64().unwrap() as usize,
            cap: v["cap"].as_u64().unwrap(),
            exclude: v["exclude"]
                .as_array()
                .map(|a| a.iter().map(|s| s.as_str().unwrap().to_string()).collect())
                .unwrap_or_default(),
            owner: v["owner"].as_bool().unwrap_or(true),
        }
    }
    pub fn without_owner(mut self) -> BOpts {
        self.owner = false;
        self
    }
}

#[derive(Clone, Debug, Default)]
pub struct BackupOut {
    /// Ok(stats) or Err(message).
    pub result: Option<Result<conserve::BackupStats, String>>,
    pub panicked: Option<String>,
    pub crashed: bool,
    pub monitor_errors: Vec<String>,
    /// (apath, sigil) from the change callback: '+', '*', '.', '-'.
    pub changes: Vec<(String, char)>,
}

impl BackupOut {
    pub fn ok_stats(&self) -> Option<&conserve::BackupStats> {
        match &self.result {
            Some(Ok(s)) => Some(s),
            _ => None,
        }
    }
    /// Returned Ok, counted no errors, and the monitor saw none.
    pub fn clean_success(&self) -> bool {
        self.ok_stats().is_some_and(|s| s.errors == 0) && self.monitor_errors.is_empty()
    }
    pub fn describe(&self) -> String {
        if let Some(p) = &self.panicked {
            return format!("PANIC {p}");
        }
        if self.crashed {
            return "crashed (world stopped)".into();
        }
        match &self.result {
            Some(Ok(s)) => format!(
                "Ok errors={} written_blocks={} dedup_blocks={} monitor_errors={}",
                s.errors,
                s.written_blocks,
                s.deduplicated_blocks,
                self.monitor_errors.len()
            ),
            Some(Err(e)) => format!("Err({e})"),
            None => "no result".into(),
        }
    }
}

pub fn do_backup(
    archive_dir: &Path,
    src: &Path,
    opts: &BOpts,
    icpt: impl AsHooked + Copy,
    flavor: Flavor,
) -> BackupOut {
    let monitor = TestMonitor::arc();
    let changes: Arc<Mutex<Vec<(String, char)>>> = Arc::new(Mutex::new(Vec::new()));
    let changes2 = changes.clone();
    let transport = transport_for(archive_dir, icpt);
    let m2 = monitor.clone();
    let src = src.to_path_buf();
    let opts = opts.clone();
    let end = drive(flavor, icpt, async move {
        let archive = Archive::open(transport).await.map_err(|e| format!("open: {e}"))?;
        let exclude = Exclude::from_strings(opts.exclude.iter()).map_err(|e| format!("exclude: {e}"))?;
        let bo = BackupOptions {
            exclude,
            max_entries_per_hunk: opts.hunk,
            max_block_size: opts.block,
            small_file_cap: opts.cap,
            owner: opts.owner,
            change_callback: Some(Box::new(move |ec| {
                changes2
                    .lock()
                    .unwrap()
                    .push((ec.apath.to_string(), ec.change.sigil()));
                Ok(())
            })),
        };
        conserve::backup(&archive, &src, &bo, m2)
            .await
            .map_err(|e| format!("{e}"))
    });
    let mut out = BackupOut {
        monitor_errors: monitor.take_errors().iter().map(|e| e.to_string()).collect(),
        changes: changes.lock().unwrap().clone(),
        ..Default::default()
    };
    match end {
        End::Done(r) => out.result = Some(r),
        End::Panicked(p) => out.panicked = Some(p),
        End::Crashed => out.crashed = true,
    }
    out
}

#[derive(Clone, Debug, PartialEq, Eq)]
pub enum Sel {
    Band(u32),
    Latest,
    LatestClosed,
}

impl Sel {
    fn policy(&self) -> BandSelectionPolicy {
        match self {
            Sel::Band(b) => BandSelectionPolicy::Specified(BandId::new(&[*b])),
            Sel::Latest => BandSelectionPolicy::Latest,
            Sel::LatestClosed => BandSelectionPolicy::LatestClosed,
        }
    }
}

#[derive(Clone, Debug, Default)]
pub struct OpOut {
    pub result: Option<Result<(), String>>,
    pub panicked: Option<String>,
    pub crashed: bool,
    pub monitor_errors: Vec<String>,
}

impl OpOut {
    pub fn is_ok(&self) -> bool {
        matches!(self.result, Some(Ok(())))
    }
    /// Returned Ok and reported nothing.
    pub fn clean(&self) -> bool {
        self.is_ok() && self.monitor_errors.is_empty()
    }
    /// Returned an error or reported at least one.
    pub fn reported_error(&self) -> bool {
        matches!(self.result, Some(Err(_))) || !self.monitor_errors.is_empty()
    }
    pub fn describe(&self) -> String {
        if let Some(p) = &self.panicked {
            return format!("PANIC {p}");
        }
        if self.crashed {
            return "crashed".into();
        }
        match &self.result {
            Some(Ok(())) => format!("Ok monitor_errors={:?}", self.monitor_errors),
            Some(Err(e)) => format!("Err({e}) monitor_errors={:?}", self.monitor_errors),
            None => "no result".into(),
        }
    }
}

fn finish_op<T>(end: End<Result<T, String>>, monitor: &TestMonitor) -> (OpOut, Option<T>) {
    let mut out = OpOut {
        monitor_errors: monitor.take_errors().iter().map(|e| e.to_string()).collect(),
        ..Default::default()
    };
    let mut val = None;
    match end {
        End::Done(Ok(v)) => {
            out.result = Some(Ok(()));
            val = Some(v);
        }
        End::Done(Err(e)) => out.result = Some(Err(e)),
        End::Panicked(p) => out.panicked = Some(p),
        End::Crashed => out.crashed = true,
    }
    (out, val)
}

pub struct RestoreArgs<'a> {
    pub sel: Sel,
    pub subtree: Option<&'a str>,
    pub exclude: &'a [String],
    pub overwrite: bool,
}

impl<'a> RestoreArgs<'a> {
    pub fn band(b: u32) -> RestoreArgs<'a> {
        RestoreArgs {
            sel: Sel::Band(b),
            subtree: None,
            exclude: &[],
            overwrite: false,
        }
    }
}

pub fn do_restore(
    archive_dir: &Path,
    dest: &Path,
    args: &RestoreArgs,
    icpt: impl AsHooked + Copy,
    flavor: Flavor,
) -> OpOut {
    let monitor = TestMonitor::arc();
    let transport = transport_for(archive_dir, icpt);
    let m2 = monitor.clone();
    let dest = dest.to_path_buf();
    let sel = args.sel.clone();
    let subtree = args.subtree.map(|s| s.to_string());
    let exclude: Vec<String> = args.exclude.to_vec();
    let overwrite = args.overwrite;
    let end = drive(flavor, icpt, async move {
        let archive = Archive::open(transport).await.map_err(|e| format!("open: {e}"))?;
        let options = RestoreOptions {
            exclude: Exclude::from_strings(exclude.iter()).map_err(|e| format!("exclude: {e}"))?,
            only_subtree: match subtree {
                Some(s) => Some(s.parse::<Apath>().map_err(|e| format!("subtree: {e}"))?),
                None => None,
            },
            overwrite,
            band_selection: sel.policy(),
            change_callback: None,
            inject_failures: Default::default(),
        };
        conserve::restore(&archive, &dest, options, m2)
            .await
            .map_err(|e| format!("{e}"))
    });
    finish_op(end, &monitor).0
}

#[derive(Clone, Debug, Default)]
pub struct DeleteOut {
    pub op: OpOut,
    pub stats: Option<conserve::DeleteStats>,
}

pub fn do_delete(
    archive_dir: &Path,
    bands: &[u32],
    dry_run: bool,
    break_lock: bool,
    icpt: impl AsHooked + Copy,
    flavor: Flavor,
    order: Option<Vec<usize>>,
) -> DeleteOut {
    let monitor = TestMonitor::arc();
    let transport = transport_for(archive_dir, icpt);
    let m2 = monitor.clone();
    let ids: Vec<BandId> = bands.iter().map(|b| BandId::new(&[*b])).collect();
    // The order seam is a thread-local of the thread driving delete_bands.
    // (block_on polls the main future on the calling thread for every flavour.)
    conserve::transport::verif::set_order_seam(order.map(|perm| {
        Box::new(move |v: &mut Vec<conserve::BlockHash>| apply_perm(v, &perm))
            as Box<dyn Fn(&mut Vec<conserve::BlockHash>)>
    }));
    let end = drive(flavor, icpt, async move {
        let archive = Archive::open(transport).await.map_err(|e| format!("open: {e}"))?;
        archive
            .delete_bands(
                &ids,
                &DeleteOptions {
                    dry_run,
                    break_lock,
                },
                m2,
            )
            .await
            .map_err(|e| format!("{e}"))
    });
    conserve::transport::verif::set_order_seam(None);
    let (op, stats) = finish_op(end, &monitor);
    DeleteOut { op, stats }
}

/// Permute `v` (already sorted) by `perm`: perm = [] or "rev" marker handled by caller. If perm is
/// shorter or longer than v, fall back to: identity when perm is empty, reverse when perm == [usize::MAX].
pub fn apply_perm<T: Clone>(v: &mut Vec<T>, perm: &[usize]) {
    if perm == [usize::MAX] {
        v.reverse();
        return;
    }
    if perm.len() != v.len() {
        return;
    }
    let old = v.clone();
    for (i, p) in perm.iter().enumerate() {
        v[i] = old[*p].clone();
    }
}

pub fn do_validate(archive_dir: &Path, quick: bool, icpt: impl AsHooked + Copy) -> OpOut {
    let monitor = TestMonitor::arc();
    let transport = transport_for(archive_dir, icpt);
    let m2 = monitor.clone();
    let end = drive(Flavor::Current, icpt, async move {
        let archive = Archive::open(transport).await.map_err(|e| format!("open: {e}"))?;
        archive
            .validate(
                &ValidateOptions {
                    skip_block_hashes: quick,
                },
                m2,
            )
            .await
            .map_err(|e| format!("{e}"))
    });
    finish_op(end, &monitor).0
}

/// One listed entry, reduced to what the checks compare.
#[derive(Clone, Debug, PartialEq, Eq)]
pub struct LEntry {
    pub apath: String,
    pub kind: String,
    pub target: Option<String>,
    pub mtime: (i64, u32),
    pub mode: Option<u32>,
    pub user: Option<String>,
    pub group: Option<String>,
    pub addrs: Vec<(String, u64, u64)>,
}

pub fn do_list(
    archive_dir: &Path,
    sel: Sel,
    subtree: &str,
    exclude: &[String],
    icpt: impl AsHooked + Copy,
) -> (OpOut, Vec<LEntry>) {
    let monitor = TestMonitor::arc();
    let transport = transport_for(archive_dir, icpt);
    let m2 = monitor.clone();
    let subtree = subtree.to_string();
    let exclude = exclude.to_vec();
    let end = drive(Flavor::Current, icpt, async move {
        let archive = Archive::open(transport).await.map_err(|e| format!("open: {e}"))?;
        let sub: Apath = subtree.parse().map_err(|e| format!("subtree: {e}"))?;
        let ex = Exclude::from_strings(exclude.iter()).map_err(|e| format!("exclude: {e}"))?;
        let mut st = archive
            .iter_entries(sel.policy(), sub, ex, m2)
            .await
            .map_err(|e| format!("{e}"))?;
        let mut out = Vec::new();
        let mut steps = 0usize;
        while let Some(e) = st.next().await {
            steps += 1;
            if steps > 100_000 {
                return Err("listing did not terminate within 100000 entries".to_string());
            }
            let v = serde_json::to_value(&e).map_err(|e| format!("{e}"))?;
            out.push(LEntry {
                apath: e.apath.to_string(),
                kind: v["kind"].as_str().unwrap_or("").to_string(),
                target: e.target.clone(),
                mtime: (e.mtime, e.mtime_nanos),
                mode: v["unix_mode"].as_u64().map(|m| m as u32),
                user: e.owner.user.clone(),
                group: e.owner.group.clone(),
                addrs: e
                    .addrs
                    .iter()
                    .map(|a| (a.hash.to_string(), a.start, a.len))
                    .collect(),
            });
        }
        Ok(out)
    });
    let (op, v) = finish_op(end, &monitor);
    (op, v.unwrap_or_default())
}

pub fn do_resolve(archive_dir: &Path, sel: Sel) -> (OpOut, Option<u32>) {
    let monitor = TestMonitor::arc();
    let transport = transport_for(archive_dir, None::<&Hooked>);
    let end = drive(Flavor::Current, None::<&Hooked>, async move {
        let archive = Archive::open(transport).await.map_err(|e| format!("open: {e}"))?;
        let id = archive
            .resolve_band_id(sel.policy())
            .await
            .map_err(|e| format!("{e}"))?;
        id.to_string()[1..]
            .parse::<u32>()
            .map_err(|e| format!("{e}"))
    });
    finish_op(end, &monitor)
}

pub fn do_open(archive_dir: &Path) -> OpOut {
    let monitor = TestMonitor::arc();
    let transport = transport_for(archive_dir, None::<&Hooked>);
    let end = drive(Flavor::Current, None::<&Hooked>, async move {
        Archive::open(transport)
            .await
            .map(|_| ())
            .map_err(|e| format!("{e}"))
    });
    finish_op(end, &monitor).0
}

/// `conserve versions`-like query: list band ids and get_info of each.
pub fn do_versions(archive_dir: &Path) -> (OpOut, Vec<(u32, bool)>) {
    let monitor = TestMonitor::arc();
    let transport = transport_for(archive_dir, None::<&Hooked>);
    let m3 = monitor.clone();
    let end = drive(Flavor::Current, None::<&Hooked>, async move {
        use conserve::monitor::Monitor;
        let archive = Archive::open(transport).await.map_err(|e| format!("open: {e}"))?;
        // The same library calls `conserve versions` makes (show_versions itself prints to
        // stdout and needs a terminal monitor).
        let mut out = Vec::new();
        for id in archive.list_band_ids().await.map_err(|e| format!("{e}"))? {
            let band = match conserve::Band::open(&archive, id).await {
                Ok(b) => b,
                Err(e) => {
                    m3.error(e);
                    continue;
                }
            };
            let info = match band.get_info().await {
                Ok(i) => i,
                Err(e) => {
                    m3.error(e);
                    continue;
                }
            };
            let _ = info.start_time;
            let _ = info.end_time.map(|e| e - info.start_time);
            archive
                .open_stored_tree(BandSelectionPolicy::Specified(id))
                .await
                .map_err(|e| format!("{e}"))?
                .size(Exclude::nothing(), m3.clone())
                .await
                .map_err(|e| format!("{e}"))?;
            out.push((id.to_string()[1..].parse::<u32>().unwrap_or(0), info.is_closed));
        }
        Ok(out)
    });
    let (op, v) = finish_op(end, &monitor);
    (op, v.unwrap_or_default())
}

pub fn do_create_archive(dir: &Path) {
    let transport = transport_for(dir, None::<&Hooked>);
    let end = drive(Flavor::Current, None::<&Hooked>, async move {
        Archive::create(transport).await.map(|_| ()).map_err(|e| format!("{e}"))
    });
    match end {
        End::Done(Ok(())) => {}
        other => panic!("create archive failed: {other:?}"),
    }
}
