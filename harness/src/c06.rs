//! C06 (E3): a garbage collection / delete and a backup running together never lose data.

use std::collections::BTreeMap;
use std::sync::atomic::{AtomicUsize, Ordering};
use std::sync::Mutex;

use serde_json::{json, Value};

use crate::common::{self, restore_exact, SrcCache, Step};
use crate::e3::{self, ActorSpec, Terminal};
use crate::fmt06::Snap;
use crate::report::{Report, Violation};
use crate::run::BOpts;
use crate::tree::{empty_tree, Cmp, Node, Tree, T0};
use crate::util::{Budget, Scratch};

pub struct RaceScenario {
    pub name: String,
    pub initial: Snap,
    /// Expected tree of every complete band present initially.
    pub band_src: BTreeMap<u32, Tree>,
    pub specs: Vec<ActorSpec>,
    /// Source tree of each backup actor (by actor index).
    pub actor_src: BTreeMap<usize, Tree>,
    pub names: Vec<&'static str>,
}

fn base_tree() -> Tree {
    let mut t = empty_tree();
    t.insert("chg".into(), Node::file(b"cccccccc", T0 + 201));
    t.insert("keep".into(), Node::file(b"kkkkkkkk", T0 + 202));
    t
}

/// New source: "chg" changed, "keep" unchanged, and new files whose content equals the garbage.
fn new_tree(garbage: &[&[u8]]) -> Tree {
    let mut t = base_tree();
    t.insert("chg".into(), Node::file(b"CCCCCCCC", T0 + 211));
    for (i, g) in garbage.iter().enumerate() {
        t.insert(format!("g{i}"), Node::file(g, T0 + 220 + i as i64));
    }
    t
}

pub fn whole_file_opts() -> BOpts {
    // small_file_cap = 0: every non-empty file is stored as its own block(s), so a file whose
    // content equals a garbage block deduplicates against it.
    BOpts::new(1000, 1 << 20, 0)
}

pub fn scenario(name: &str, srcs: &SrcCache) -> RaceScenario {
    let (garbage, delete, opts): (Vec<&[u8]>, Vec<u32>, BOpts) = match name {
        "backup||gc" | "backup||gc-at-b9999" => (vec![b"GGGGGGGG"], vec![], whole_file_opts()),
        "backup||delete-b0" => (vec![b"GGGGGGGG"], vec![0], whole_file_opts()),
        "backup||gc-two-garbage" => (vec![b"GGGGGGGG", b"HHHHHHHH"], vec![], whole_file_opts()),
        "backup||gc-two-garbage-rev" => (vec![b"GGGGGGGG", b"HHHHHHHH"], vec![], whole_file_opts()),
        "backup||gc-small-hunks" => (vec![b"GGGGGGGG"], vec![], BOpts::new(2, 4, 0)),
        "backup||delete-b0-small-hunks" => (vec![b"GGGGGGGG"], vec![0], BOpts::new(2, 4, 0)),
        "backup||gc-T1-T2" | "backup||delete-b0-T1-T2" => {
            // A richer pair of trees (combined small files, a multi-block file whose changed middle
            // block equals a garbage block, a symlink, a directory) under small-block options.
            let opts = common::opts_s();
            let scn = common::build_scenario(
                name,
                &[
                    Step::Backup(common::tree_t1(), opts.clone()),
                    Step::Garbage(b"XXXXXXXX".to_vec()),
                    Step::Garbage(b"zzzzzzzz".to_vec()),
                ],
                common::tree_t2(),
                opts.clone(),
                srcs,
            );
            return RaceScenario {
                name: name.to_string(),
                initial: scn.pre.clone(),
                band_src: scn.band_src.clone(),
                specs: vec![
                    ActorSpec::Backup {
                        src: srcs.dir_for(&common::tree_t2()),
                        opts,
                    },
                    ActorSpec::Delete {
                        bands: if name.contains("delete-b0") { vec![0] } else { vec![] },
                        order: None,
                    },
                ],
                actor_src: [(0usize, common::tree_t2())].into_iter().collect(),
                names: vec!["B", "G"],
            };
        }
        "backup||gc-no-bands-yet" => {
            // An archive with no version at all but with a garbage block (the first backup was
            // interrupted and its band directory removed, or a delete was interrupted between the
            // bands and the blocks) whose content reappears in the source.
            let opts = whole_file_opts();
            let g: &[u8] = b"GGGGGGGG";
            let scn = common::build_scenario(name, &[Step::Garbage(g.to_vec())], new_tree(&[g]), opts.clone(), srcs);
            return RaceScenario {
                name: name.to_string(),
                initial: scn.pre.clone(),
                band_src: scn.band_src.clone(),
                specs: vec![
                    ActorSpec::Backup {
                        src: srcs.dir_for(&new_tree(&[g])),
                        opts,
                    },
                    ActorSpec::Delete {
                        bands: vec![],
                        order: None,
                    },
                ],
                actor_src: [(0usize, new_tree(&[g]))].into_iter().collect(),
                names: vec!["B", "G"],
            };
        }
        "backup||gc||backup" => {
            // Three actors: two backups of different trees (both reuse the garbage content) and a gc.
            let opts = whole_file_opts();
            let g: &[u8] = b"GGGGGGGG";
            let scn = common::build_scenario(
                name,
                &[Step::Backup(base_tree(), opts.clone()), Step::Garbage(g.to_vec())],
                new_tree(&[g]),
                opts.clone(),
                srcs,
            );
            let mut other = base_tree();
            other.insert("keep".into(), Node::file(b"KKKKKKKK", T0 + 231));
            other.insert("also".into(), Node::file(g, T0 + 232));
            return RaceScenario {
                name: name.to_string(),
                initial: scn.pre.clone(),
                band_src: scn.band_src.clone(),
                specs: vec![
                    ActorSpec::Backup {
                        src: srcs.dir_for(&new_tree(&[g])),
                        opts: opts.clone(),
                    },
                    ActorSpec::Delete {
                        bands: vec![],
                        order: None,
                    },
                    ActorSpec::Backup {
                        src: srcs.dir_for(&other),
                        opts,
                    },
                ],
                actor_src: [(0usize, new_tree(&[g])), (2usize, other)].into_iter().collect(),
                names: vec!["B", "G", "C"],
            };
        }
        other => panic!("unknown race scenario {other}"),
    };
    let mut hist = vec![Step::Backup(base_tree(), opts.clone())];
    for g in &garbage {
        hist.push(Step::Garbage(g.to_vec()));
    }
    let src = new_tree(&garbage);
    let scn = common::build_scenario(name, &hist, src.clone(), opts.clone(), srcs);
    let order = if name.ends_with("-rev") { Some(vec![usize::MAX]) } else { None };
    // "-at-b9999": the existing version is b9999, so the backup creates b10000 (one more digit:
    // where comparing names is not comparing numbers)
    let (initial, band_src) = if name.ends_with("-at-b9999") {
        let mut snap = crate::fmt06::Snap::default();
        for (f, c) in &scn.pre.files {
            snap.files.insert(f.replacen("b0000", "b9999", 1), c.clone());
        }
        for d in &scn.pre.dirs {
            snap.dirs.insert(d.replacen("b0000", "b9999", 1));
        }
        (snap, scn.band_src.iter().map(|(b, t)| (if *b == 0 { 9999 } else { *b }, t.clone())).collect())
    } else {
        (scn.pre.clone(), scn.band_src.clone())
    };
    RaceScenario {
        name: name.to_string(),
        initial,
        band_src,
        specs: vec![
            ActorSpec::Backup {
                src: srcs.dir_for(&src),
                opts,
            },
            ActorSpec::Delete {
                bands: delete,
                order,
            },
        ],
        actor_src: [(0usize, src)].into_iter().collect(),
        names: vec!["B", "G"],
    }
}

/// Scenario names. The three-actor scenario "backup||gc||backup" is built by `scenario()` but is
/// NOT part of the check: C06 quantifies over one backup and one gc. Exploring it (VERIF_C06_EXTRA=1,
/// reported as NOTE lines, never as a verdict) shows a gap of the lock protocol that needs two
/// overlapping backups: see DESIGN.md 10.5.
pub fn scenario_names(thorough: bool) -> Vec<&'static str> {
    if thorough {
        vec![
            "backup||gc",
            "backup||delete-b0",
            "backup||gc-no-bands-yet",
            "backup||gc-at-b9999",
            "backup||gc-two-garbage",
            "backup||gc-two-garbage-rev",
            "backup||gc-small-hunks",
            "backup||delete-b0-small-hunks",
            "backup||gc-T1-T2",
            "backup||delete-b0-T1-T2",
        ]
    } else {
        vec!["backup||gc", "backup||delete-b0", "backup||gc-no-bands-yet", "backup||gc-at-b9999"]
    }
}

/// Terminal-state oracle: every band marked complete restores completely.
pub fn oracle(scn: &RaceScenario, t: &Terminal, scratch: &Scratch) -> Vec<Violation> {
    let mut v = Vec::new();
    let results: Vec<String> = t.results.iter().map(|r| r.class()).collect();
    let at = format!("{} outcome {results:?}", scn.name);
    for r in &t.results {
        if let Some(p) = r.panicked() {
            v.push(Violation::new(
                format!("C06:panic:{}", p.split(": ").nth(1).unwrap_or("").chars().take(30).collect::<String>().replace(' ', "-")),
                format!("{at}: an actor panicked: {p}"),
            ));
        }
    }
    // Which band did each backup create? The one whose BANDHEAD that actor wrote.
    let mut new_bands: BTreeMap<u32, usize> = BTreeMap::new();
    for s in &t.steps {
        if s.ok && s.mutating && s.path.ends_with("/BANDHEAD") && scn.actor_src.contains_key(&s.actor) {
            if let Some(b) = crate::fmt06::parse_band_dir(s.path.split('/').next().unwrap_or("")) {
                new_bands.insert(b, s.actor);
            }
        }
    }
    for b in t.snap.band_ids() {
        if !t.snap.has_tail_file(b) {
            continue;
        }
        let expected = match new_bands.get(&b) {
            Some(actor) => scn.actor_src.get(actor),
            None => scn.band_src.get(&b),
        };
        let problems = common::ref_scan(&t.snap, &[b]);
        if !problems.is_empty() {
            v.push(Violation::new(
                "C06:complete-version-refers-to-removed-block",
                format!("{at}: {problems:?}"),
            ));
        }
        if let Some(exp) = expected {
            let diffs = restore_exact(&t.dir, b, exp, scratch, Cmp::FULL);
            if !diffs.is_empty() {
                v.push(Violation::new(
                    "C06:complete-version-does-not-restore",
                    format!("{at}: b{b:04}: {diffs:?}"),
                ));
            }
        }
    }
    v
}

pub fn run(report: &Report, budget: &Budget) {
    let srcs = SrcCache::new();
    let scratch = Scratch::new("c06");
    let mut total = (0usize, 0usize, 0usize, 0usize);
    let mut all_complete = true;
    let mut per = Vec::new();
    for name in scenario_names(report.thorough()) {
        let scn = scenario(name, &srcs);
        let min_preempt: Mutex<Option<(usize, Vec<usize>)>> = Mutex::new(None);
        let violating = AtomicUsize::new(0);
        let on_terminal = |t: &Terminal, choices: &[usize], scratch: &Scratch| {
            let vs = oracle(&scn, t, scratch);
            report.outcome(format!("{:?}", t.results.iter().map(|r| r.class()).collect::<Vec<_>>()));
            if t.preemptions >= 2 && choices.len() % 3 == 0 {
                report.sample(json!({"scenario": scn.name, "explored_schedule": e3::schedule_string(choices, &scn.names), "preemptions": t.preemptions,
                    "outcome": t.results.iter().map(|r| r.class()).collect::<Vec<_>>(), "complete_bands_all_restore": vs.is_empty()}));
            }
            if !vs.is_empty() {
                violating.fetch_add(1, Ordering::SeqCst);
                let mut mp = min_preempt.lock().unwrap();
                if mp.as_ref().is_none_or(|(p, _)| t.preemptions < *p) {
                    *mp = Some((t.preemptions, choices.to_vec()));
                }
            }
            for v in vs {
                let case = json!({"kind": "e3", "check": "C06", "scenario": scn.name, "schedule": choices,
                    "schedule_rle": e3::schedule_string(choices, &scn.names), "preemptions": t.preemptions,
                    "steps": e3::steps_brief(&t.steps, &scn.names)});
                report.violation(&v, &case);
            }
        };
        let st = e3::explore(&scn.initial, &scn.specs, budget, &on_terminal);
        let min_preempt = min_preempt.into_inner().unwrap();
        let violating = violating.load(Ordering::SeqCst);
        total.0 += st.states;
        total.1 += st.transitions;
        total.2 += st.executions;
        total.3 += st.terminal_runs;
        all_complete &= st.complete;
        per.push(json!({"scenario": name, "states": st.states, "transitions": st.transitions, "executions": st.executions,
            "terminal_runs": st.terminal_runs, "violating_runs": violating, "complete": st.complete, "longest_schedule": st.max_trace,
            "min_preemption_counterexample": min_preempt.as_ref().map(|(p, c)| json!({"preemptions": p, "schedule": e3::schedule_string(c, &scn.names)}))}));
        if let Some((_, c)) = &min_preempt {
            report.sample(json!({"scenario": name, "violating_schedule": e3::schedule_string(c, &scn.names)}));
        }
        report.sample(json!({"scenario": name, "actors": e3::specs_json(&scn.specs), "first_schedule": "all of B then all of G (default), alternatives at every storage operation"}));
        scratch.clear();
    }
    if std::env::var("VERIF_C06_EXTRA").is_ok() {
        let scn = scenario("backup||gc||backup", &srcs);
        let bad = AtomicUsize::new(0);
        let shown = AtomicUsize::new(0);
        let on_terminal = |t: &Terminal, choices: &[usize], scratch: &Scratch| {
            let vs = oracle(&scn, t, scratch);
            if !vs.is_empty() {
                bad.fetch_add(1, Ordering::SeqCst);
                if t.preemptions <= 1 && shown.fetch_add(1, Ordering::SeqCst) < 3 {
                    println!(
                        "NOTE (outside C06's quantifier, three actors): schedule {} ({} preemptions): {}",
                        e3::schedule_string(choices, &scn.names),
                        t.preemptions,
                        vs[0].what.chars().take(300).collect::<String>()
                    );
                }
            }
        };
        let st = e3::explore(&scn.initial, &scn.specs, budget, &on_terminal);
        println!(
            "NOTE three-actor exploration: states={} executions={} terminal_runs={} runs_with_a_dangling_reference={} complete={}",
            st.states,
            st.executions,
            st.terminal_runs,
            bad.load(Ordering::SeqCst),
            st.complete
        );
    }
    report.set("states", json!(total.0));
    report.set("transitions", json!(total.1));
    report.set("traces_validated_against_impl", json!(total.2));
    report.set("terminal_runs", json!(total.3));
    report.set("per_scenario", json!(per));
    report.set("exhaustive", json!(all_complete));
    report.set("preemption_bound", json!(if all_complete { "none (full product explored)" } else { "incomplete: time cap hit" }));
    report.assume("granularity: one storage operation of the transport is one atomic step; the local filesystem is sequentially consistent");
    report.assume("two actors, each a separate runtime/thread standing for a separate process; state key = canonical archive bytes + each actor's (operation, outcome) history + pending operation");
}

pub fn replay(case: &Value) -> Vec<Violation> {
    let srcs = SrcCache::new();
    let scratch = Scratch::new("replay");
    let scn = scenario(case["scenario"].as_str().unwrap(), &srcs);
    let schedule: Vec<usize> = case["schedule"].as_array().unwrap().iter().map(|x| x.as_u64().unwrap() as usize).collect();
    let dir = scratch.fresh("e3");
    let mut visit = |_: &e3::Point, _: &[usize]| true;
    let ex = e3::execute(&scn.initial, &dir, &scn.specs, &schedule, None, &mut visit);
    if let Some(d) = &ex.diverged {
        eprintln!("replay diverged: {d}");
        std::process::exit(2);
    }
    match &ex.terminal {
        Some(t) => {
            for s in e3::steps_brief(&t.steps, &scn.names) {
                println!("    {s}");
            }
            oracle(&scn, t, &scratch)
        }
        None => Vec::new(),
    }
}
