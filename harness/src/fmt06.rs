//! Independent reader and writer of the documented archive format 0.6 (doc/format.md).
//!
//! Nothing here calls a conserve type: raw Snappy (`snap`), `serde_json::Value`, BLAKE2b-512
//! (`blake2-rfc`), own path arithmetic and own apath comparator.

use std::cmp::Ordering;
use std::collections::{BTreeMap, BTreeSet};
use std::path::Path;

use blake2_rfc::blake2b::blake2b;
use serde_json::{json, Value};

use crate::util::hex;

/// All files and directories of an archive (paths relative to the archive root).
#[derive(Clone, Debug, PartialEq, Eq, Hash, Default)]
pub struct Snap {
    pub files: BTreeMap<String, Vec<u8>>,
    pub dirs: BTreeSet<String>,
}

impl Snap {
    pub fn load(root: &Path) -> Snap {
        let mut s = Snap::default();
        load_into(root, "", &mut s);
        s
    }

    /// Write this snapshot into a directory (created if missing, must be empty).
    pub fn store(&self, root: &Path) {
        std::fs::create_dir_all(root).expect("mk snap root");
        for d in &self.dirs {
            std::fs::create_dir_all(root.join(d)).expect("mk snap dir");
        }
        for (f, b) in &self.files {
            std::fs::write(root.join(f), b).unwrap_or_else(|e| panic!("write snap file {f}: {e}"));
        }
    }

    /// The snapshot with the two wall-clock fields masked (start_time / end_time).
    pub fn canonical(&self) -> Snap {
        let mut c = self.clone();
        for (name, bytes) in c.files.iter_mut() {
            if name.ends_with("/BANDHEAD") || name.ends_with("/BANDTAIL") {
                *bytes = mask_times(bytes);
            }
        }
        c
    }

    pub fn band_ids(&self) -> Vec<u32> {
        let mut v: Vec<u32> = self.dirs.iter().filter_map(|d| parse_band_dir(d)).collect();
        v.sort();
        v
    }

    pub fn has_head(&self, band: u32) -> bool {
        self.files
            .get(&format!("{}/BANDHEAD", band_dir(band)))
            .is_some_and(|b| !b.is_empty())
    }

    pub fn has_head_file(&self, band: u32) -> bool {
        self.files
            .contains_key(&format!("{}/BANDHEAD", band_dir(band)))
    }

    pub fn has_tail_file(&self, band: u32) -> bool {
        self.files
            .contains_key(&format!("{}/BANDTAIL", band_dir(band)))
    }

    /// Hunk numbers present for a band, in numeric order, with their relative path.
    pub fn hunk_files(&self, band: u32) -> Vec<(u32, String)> {
        let prefix = format!("{}/i/", band_dir(band));
        let mut v = Vec::new();
        for f in self.files.keys() {
            if let Some(rest) = f.strip_prefix(&prefix) {
                if let Some((_sub, name)) = rest.split_once('/') {
                    if let Ok(n) = name.parse::<u32>() {
                        v.push((n, f.clone()));
                    }
                }
            }
        }
        v.sort();
        v
    }

    /// Block files: (hash hex name, relative path, compressed length).
    pub fn block_files(&self) -> Vec<(String, String)> {
        self.files
            .keys()
            .filter(|f| f.starts_with("d/"))
            .map(|f| (f.rsplit('/').next().unwrap().to_string(), f.clone()))
            .collect()
    }

    pub fn block_path(hash: &str) -> String {
        format!("d/{}/{}", &hash[..3.min(hash.len())], hash)
    }

    /// Decompressed content of a block, judged independently.
    pub fn block_content(&self, hash: &str) -> Result<Vec<u8>, String> {
        let p = Snap::block_path(hash);
        let comp = self.files.get(&p).ok_or_else(|| format!("block {p} missing"))?;
        if comp.is_empty() {
            return Err(format!("block {p} is zero-length"));
        }
        snap::raw::Decoder::new()
            .decompress_vec(comp)
            .map_err(|e| format!("block {p} does not decompress: {e}"))
    }

    /// Decoded hunks of a band: (hunk number, Ok(entries) | Err(why)).
    pub fn band_hunks(&self, band: u32) -> Vec<(u32, Result<Vec<REntry>, String>)> {
        self.hunk_files(band)
            .into_iter()
            .map(|(n, f)| (n, decode_hunk(&self.files[&f])))
            .collect()
    }

    /// All entries of a band's own hunks that decode, in hunk order.
    pub fn band_entries(&self, band: u32) -> Vec<REntry> {
        self.band_hunks(band)
            .into_iter()
            .filter_map(|(_, r)| r.ok())
            .flatten()
            .collect()
    }
}

fn load_into(root: &Path, rel: &str, s: &mut Snap) {
    let p = if rel.is_empty() {
        root.to_path_buf()
    } else {
        root.join(rel)
    };
    let rd = match std::fs::read_dir(&p) {
        Ok(rd) => rd,
        Err(_) => return,
    };
    for e in rd.flatten() {
        let name = e.file_name().to_string_lossy().into_owned();
        let crel = if rel.is_empty() {
            name
        } else {
            format!("{rel}/{name}")
        };
        let ft = match e.file_type() {
            Ok(ft) => ft,
            Err(_) => continue,
        };
        if ft.is_dir() {
            s.dirs.insert(crel.clone());
            load_into(root, &crel, s);
        } else if ft.is_file() {
            s.files
                .insert(crel.clone(), std::fs::read(root.join(&crel)).unwrap_or_default());
        }
    }
}

pub fn band_dir(band: u32) -> String {
    format!("b{band:04}")
}

pub fn parse_band_dir(d: &str) -> Option<u32> {
    if d.contains('/') {
        return None;
    }
    let n = d.strip_prefix('b')?;
    if n.is_empty() || !n.bytes().all(|c| c.is_ascii_digit()) {
        return None;
    }
    n.parse().ok()
}

pub fn hunk_path(band: u32, hunk: u32) -> String {
    format!("{}/i/{:05}/{:09}", band_dir(band), hunk / 10000, hunk)
}

fn mask_times(bytes: &[u8]) -> Vec<u8> {
    match serde_json::from_slice::<Value>(bytes) {
        Ok(Value::Object(mut m)) => {
            for k in ["start_time", "end_time"] {
                if m.contains_key(k) {
                    m.insert(k.to_string(), json!(0));
                }
            }
            let mut v = serde_json::to_vec(&Value::Object(m)).unwrap();
            v.push(b'\n');
            v
        }
        _ => bytes.to_vec(),
    }
}

pub fn blake2b512_hex(data: &[u8]) -> String {
    hex(blake2b(64, &[], data).as_bytes())
}

#[derive(Clone, Debug, PartialEq, Eq, Hash)]
pub struct RAddr {
    pub hash: String,
    pub start: u64,
    pub len: u64,
}

/// One index entry as decoded by the independent reader.
#[derive(Clone, Debug, PartialEq, Eq)]
pub struct REntry {
    pub apath: String,
    pub kind: String,
    pub mtime: i64,
    pub mtime_nanos: u32,
    pub unix_mode: Option<u32>,
    pub user: Option<String>,
    pub group: Option<String>,
    pub addrs: Vec<RAddr>,
    pub has_addrs_key: bool,
    pub target: Option<String>,
    pub raw: Value,
}

impl REntry {
    pub fn size(&self) -> u64 {
        self.addrs.iter().map(|a| a.len).sum()
    }
}

pub fn decode_hunk(bytes: &[u8]) -> Result<Vec<REntry>, String> {
    if bytes.is_empty() {
        return Err("hunk file is empty".into());
    }
    let json = snap::raw::Decoder::new()
        .decompress_vec(bytes)
        .map_err(|e| format!("hunk does not decompress: {e}"))?;
    let v: Value = serde_json::from_slice(&json).map_err(|e| format!("hunk is not JSON: {e}"))?;
    let arr = v.as_array().ok_or("hunk JSON is not a list")?;
    let mut out = Vec::new();
    for e in arr {
        let o = e.as_object().ok_or("hunk element is not an object")?;
        let apath = o
            .get("apath")
            .and_then(|a| a.as_str())
            .ok_or("entry without apath")?
            .to_string();
        let kind = o
            .get("kind")
            .and_then(|a| a.as_str())
            .ok_or("entry without kind")?
            .to_string();
        let mut addrs = Vec::new();
        let has_addrs_key = o.contains_key("addrs");
        if let Some(a) = o.get("addrs") {
            for ad in a.as_array().ok_or("addrs is not a list")? {
                addrs.push(RAddr {
                    hash: ad
                        .get("hash")
                        .and_then(|h| h.as_str())
                        .ok_or("addr without hash")?
                        .to_string(),
                    start: ad.get("start").and_then(|s| s.as_u64()).unwrap_or(0),
                    len: ad
                        .get("len")
                        .and_then(|s| s.as_u64())
                        .ok_or("addr without len")?,
                });
            }
        }
        out.push(REntry {
            apath,
            kind,
            mtime: o.get("mtime").and_then(|m| m.as_i64()).unwrap_or(0),
            mtime_nanos: o.get("mtime_nanos").and_then(|m| m.as_u64()).unwrap_or(0) as u32,
            unix_mode: o.get("unix_mode").and_then(|m| m.as_u64()).map(|m| m as u32),
            user: o.get("user").and_then(|m| m.as_str()).map(String::from),
            group: o.get("group").and_then(|m| m.as_str()).map(String::from),
            addrs,
            has_addrs_key,
            target: o.get("target").and_then(|m| m.as_str()).map(String::from),
            raw: e.clone(),
        });
    }
    Ok(out)
}

/// Well-formedness of an apath, from the statement: starts with '/', no empty, "." or ".."
/// component, no NUL.
pub fn apath_valid(s: &str) -> bool {
    let b = s.as_bytes();
    if b.first() != Some(&b'/') {
        return false;
    }
    if b.contains(&0) {
        return false;
    }
    if s == "/" {
        return true;
    }
    let mut i = 1;
    // Walk components by hand, not with split, to stay independent of the implementation idiom.
    while i <= b.len() {
        let mut j = i;
        while j < b.len() && b[j] != b'/' {
            j += 1;
        }
        let comp = &b[i..j];
        if comp.is_empty() || comp == b"." || comp == b".." {
            return false;
        }
        i = j + 1;
        if j == b.len() {
            break;
        }
    }
    // A trailing slash leaves an empty last component.
    if b.last() == Some(&b'/') {
        return false;
    }
    true
}

/// The documented total order: compare the directory part component-wise (bytes), with a path
/// whose directory part is a proper prefix of the other's coming first (files of a directory
/// before anything in its subdirectories), then the final name.
pub fn apath_cmp(a: &str, b: &str) -> Ordering {
    fn split(p: &str) -> (Vec<&[u8]>, &[u8]) {
        let s = p.strip_prefix('/').unwrap_or(p);
        let comps: Vec<&[u8]> = s.split('/').map(|c| c.as_bytes()).collect();
        let (last, dirs) = comps.split_last().unwrap();
        (dirs.to_vec(), last)
    }
    let (da, na) = split(a);
    let (db, nb) = split(b);
    // Directory parts compare lexicographically as lists of byte-string components; a list that
    // is a proper prefix of the other sorts first (direct children before deeper descendants).
    let mut i = 0;
    loop {
        match (da.get(i), db.get(i)) {
            (None, None) => return na.cmp(nb),
            (None, Some(_)) => return Ordering::Less,
            (Some(_), None) => return Ordering::Greater,
            (Some(x), Some(y)) => match x.cmp(y) {
                Ordering::Equal => i += 1,
                o => return o,
            },
        }
    }
}

/// Does `sub` select `p` by whole components (p == sub or p lies under sub)?
pub fn apath_under(sub: &str, p: &str) -> bool {
    if sub == "/" {
        return true;
    }
    p == sub || (p.len() > sub.len() && p.starts_with(sub) && p.as_bytes()[sub.len()] == b'/')
}

/// The reference stitch, from the property statement (C08): N's own entries; if N is incomplete
/// continue in the nearest earlier *existing* band (one with a BANDHEAD) with entries that sort
/// after the last path taken so far, recursively; stop at the first complete band or when no earlier
/// band exists. Returns (entry, band it came from).
pub fn ref_stitch(snap: &Snap, band: u32) -> Vec<(REntry, u32)> {
    let mut out: Vec<(REntry, u32)> = Vec::new();
    let mut last: Option<String> = None;
    let mut cur = Some(band);
    while let Some(b) = cur {
        if snap.files.contains_key(&format!("{}/BANDHEAD", band_dir(b))) {
            for e in snap.band_entries(b) {
                if let Some(l) = &last {
                    if apath_cmp(&e.apath, l) != Ordering::Greater {
                        continue;
                    }
                }
                out.push((e, b));
            }
            // The last path taken so far is the greatest path of any band read so far.
            if let Some(m) = snap
                .band_entries(b)
                .iter()
                .map(|e| e.apath.clone())
                .max_by(|x, y| apath_cmp(x, y))
            {
                let newer = match &last {
                    None => true,
                    Some(l) => apath_cmp(&m, l) == Ordering::Greater,
                };
                if newer {
                    last = Some(m);
                }
            }
        }
        if snap.has_tail_file(b) {
            break;
        }
        // nearest earlier existing band
        cur = None;
        let mut k = b;
        while k > 0 {
            k -= 1;
            if snap.files.contains_key(&format!("{}/BANDHEAD", band_dir(k))) {
                cur = Some(k);
                break;
            }
        }
    }
    out
}

// ---------------------------------------------------------------------------------------------
// Writer

pub fn compress(data: &[u8]) -> Vec<u8> {
    snap::raw::Encoder::new().compress_vec(data).unwrap()
}

/// Create an empty archive directory with header and block directory.
pub fn write_archive_skeleton(root: &Path) {
    std::fs::create_dir_all(root.join("d")).unwrap();
    std::fs::write(
        root.join("CONSERVE"),
        b"{\"conserve_archive_version\":\"0.6\"}\n",
    )
    .unwrap();
}

/// Store a block holding `content`; returns its hash.
pub fn write_block(root: &Path, content: &[u8]) -> String {
    let h = blake2b512_hex(content);
    let p = root.join(Snap::block_path(&h));
    std::fs::create_dir_all(p.parent().unwrap()).unwrap();
    std::fs::write(p, compress(content)).unwrap();
    h
}

pub struct BandSpec {
    pub id: u32,
    pub head: bool,
    /// `Some(n)`: write a tail stating n hunks.
    pub tail: Option<u64>,
    /// Hunks of JSON entries, numbered 0.. in order.
    pub hunks: Vec<Vec<Value>>,
}

pub fn write_band(root: &Path, spec: &BandSpec) {
    let bd = root.join(band_dir(spec.id));
    std::fs::create_dir_all(bd.join("i")).unwrap();
    if spec.head {
        std::fs::write(
            bd.join("BANDHEAD"),
            b"{\"start_time\":1600000000,\"band_format_version\":\"0.6.3\",\"format_flags\":[]}\n",
        )
        .unwrap();
    }
    for (n, h) in spec.hunks.iter().enumerate() {
        let p = root.join(hunk_path(spec.id, n as u32));
        std::fs::create_dir_all(p.parent().unwrap()).unwrap();
        std::fs::write(p, compress(&serde_json::to_vec(&Value::Array(h.clone())).unwrap())).unwrap();
    }
    if let Some(n) = spec.tail {
        std::fs::write(
            bd.join("BANDTAIL"),
            format!("{{\"end_time\":1600000001,\"index_hunk_count\":{n}}}\n"),
        )
        .unwrap();
    }
}

pub fn symlink_entry(apath: &str, target: &str) -> Value {
    json!({"apath": apath, "kind": "Symlink", "mtime": 1600000000, "unix_mode": null, "target": target})
}

pub fn dir_entry(apath: &str) -> Value {
    json!({"apath": apath, "kind": "Dir", "mtime": 1600000000, "unix_mode": 493})
}
