//! C17: the archive is a pure function of the source and the operation history (E1 histories):
//! every archive-event transition is re-executed under other runtime flavours / worker counts
//! (and both extreme block-deletion orders) from the same parent snapshot and compared byte for byte.

use std::sync::atomic::{AtomicUsize, Ordering};

use serde_json::{json, Value};

use crate::fmt06::Snap;
use crate::hist::{self, Op, Transition};
use crate::report::{Report, Violation};
use crate::run::{self, Flavor};
use crate::util::Budget;

static REEXEC: AtomicUsize = AtomicUsize::new(0);

fn first_difference(a: &Snap, b: &Snap) -> String {
    for (f, bytes) in &a.files {
        match b.files.get(f) {
            None => return format!("{f} exists only in the first run"),
            Some(x) if x != bytes => return format!("{f} differs ({} vs {} bytes)", bytes.len(), x.len()),
            _ => {}
        }
    }
    for f in b.files.keys() {
        if !a.files.contains_key(f) {
            return format!("{f} exists only in the second run");
        }
    }
    for d in a.dirs.symmetric_difference(&b.dirs) {
        return format!("directory {d} exists in only one run");
    }
    "no difference".into()
}

pub fn oracle(tr: &Transition) -> Vec<Violation> {
    let mut v = Vec::new();
    let reference = tr.child.snap.canonical();
    let variants: Vec<(Flavor, Option<Vec<usize>>, &str)> = match &tr.ev.op {
        Op::Backup(_) => vec![
            (Flavor::Multi(2), None, "multi-thread-2"),
            (Flavor::Multi(8), None, "multi-thread-8"),
            (Flavor::CurrentExitAtOnce, None, "process-exits-as-soon-as-the-operation-returns"),
        ],
        Op::Delete(_) | Op::Gc => vec![
            (Flavor::Multi(2), None, "multi-thread-2"),
            (Flavor::Multi(8), Some(vec![usize::MAX]), "multi-thread-8-reverse-deletion-order"),
            (Flavor::Current, Some(vec![usize::MAX]), "current-thread-reverse-deletion-order"),
            (Flavor::CurrentExitAtOnce, None, "process-exits-as-soon-as-the-operation-returns"),
        ],
        _ => return v,
    };
    // quick: the eight-worker replays are left to the thorough tier
    let variants: Vec<_> = variants
        .into_iter()
        .filter(|(f, _, _)| THOROUGH.load(Ordering::Relaxed) == 1 || *f != Flavor::Multi(8))
        .collect();
    for (flavor, order, name) in variants {
        let dir = tr.scratch.fresh("f");
        tr.parent.snap.store(&dir);
        let src = tr.child.src.tree();
        match &tr.ev.op {
            Op::Backup(o) => {
                let opts = hist::opts_of(*o);
                let _ = run::do_backup(&dir, &tr.srcs.dir_for(&src), &opts, run::NOHOOK, flavor);
            }
            Op::Delete(b) => {
                let _ = run::do_delete(&dir, b, false, false, run::NOHOOK, flavor, order);
            }
            Op::Gc => {
                let _ = run::do_delete(&dir, &[], false, false, run::NOHOOK, flavor, order);
            }
            _ => {}
        }
        REEXEC.fetch_add(1, Ordering::Relaxed);
        let got = Snap::load(&dir).canonical();
        if got != reference {
            v.push(Violation::new(
                format!("C17:archive-differs-between-replays:{}", match &tr.ev.op { Op::Backup(_) => "backup", _ => "delete" }),
                format!("{} replayed as {name}: {}", tr.at(), first_difference(&reference, &got)),
            ));
        }
        let _ = std::fs::remove_dir_all(&dir);
    }
    v
}

/// State rider: operations that fail part way must be as reproducible as those that succeed. A
/// delete of several versions that names a missing version, or whose second directory removal
/// fails, is replayed from the same snapshot under two runtime flavours and compared.
pub fn on_state(st: &hist::HState, scratch: &crate::util::Scratch, srcs: &crate::common::SrcCache) -> Vec<(Violation, Value)> {
    let mut out = Vec::new();
    faulty_backup_rider(st, scratch, srcs, &mut out);
    foreign_lock_rider(st, scratch, srcs, &mut out);
    let ids = st.snap.band_ids();
    let newest_complete = ids.last().is_some_and(|b| st.snap.has_tail_file(*b));
    if ids.len() < 2 || !newest_complete || (THOROUGH.load(Ordering::Relaxed) == 0 && st.depth > 1) {
        return out;
    }
    let mut with_missing = vec![ids[0], 9999];
    with_missing.extend(ids[1..].iter().cloned());
    let plans: Vec<(Vec<u32>, crate::hook::Plan, &str)> = vec![
        (with_missing, crate::hook::Plan::none(), "delete-naming-a-missing-version"),
        (
            ids.clone(),
            crate::hook::Plan {
                fail_nth_verb: Some((conserve::transport::record::Verb::RemoveDirAll, 1, conserve::transport::ErrorKind::Other)),
                ..Default::default()
            },
            "delete-whose-second-removal-fails",
        ),
    ];
    for (bands, plan, name) in plans {
        let mut results = Vec::new();
        for flavor in [Flavor::Current, Flavor::Multi(2), Flavor::Current, Flavor::CurrentExitAtOnce] {
            let dir = scratch.fresh("pf");
            st.snap.store(&dir);
            let icpt = crate::hook::Icpt::new(&dir, plan.clone());
            let o = run::do_delete(&dir, &bands, false, false, Some(&icpt), flavor, None);
            REEXEC.fetch_add(1, Ordering::Relaxed);
            results.push((o.op.is_ok(), Snap::load(&dir).canonical()));
            let _ = std::fs::remove_dir_all(&dir);
        }
        for r in &results[1..] {
            if r.0 != results[0].0 || r.1 != results[0].1 {
                out.push((
                    Violation::new(
                        format!("C17:archive-differs-between-replays:{name}"),
                        format!(
                            "seed {} after {:?}: delete {bands:?} ({}) replayed from the same snapshot: {}",
                            st.seed,
                            st.describe_path(),
                            plan.describe(),
                            first_difference(&results[0].1, &r.1)
                        ),
                    ),
                    hist::case_json("C17", st.seed, &st.path),
                ));
                break;
            }
        }
    }
    out
}

/// Second state rider: a backup or gc during which one read of the archive fails must leave the
/// same archive however the concurrent reads of that operation are scheduled. The next backup of the
/// state's source (and a gc) is traced once; then, for every directory listing (thorough: every read) it
/// makes, it is replayed from the same snapshot with exactly that operation failing - once on the
/// current-thread runtime, where sibling tasks complete in the order they were spawned and the
/// failure comes at once, and once on a two-worker runtime with the failure delayed until its
/// siblings have long completed - and the resulting archives are compared.
fn faulty_backup_rider(st: &hist::HState, scratch: &crate::util::Scratch, srcs: &crate::common::SrcCache, out: &mut Vec<(Violation, Value)>) {
    use conserve::transport::record::Verb;
    // quick: seeds and their successors only (the deeper states add little here: what matters is
    // an archive with several block subdirectories, which every seed with a version has)
    if st.snap.band_ids().is_empty() || (THOROUGH.load(Ordering::Relaxed) == 0 && st.depth > 1) {
        return;
    }
    let src = srcs.dir_for(&st.src.tree());
    let opts = hist::opts_of(0);
    for what in ["backup", "gc"] {
        // one operation on a copy of the state's archive, with an optional plan
        let exec = |dir: &std::path::Path, plan: crate::hook::Plan, flavor: Flavor| -> (bool, String, Vec<crate::hook::OpRec>) {
            let icpt = crate::hook::Icpt::new(dir, plan);
            let (ok, desc) = if what == "backup" {
                let o = run::do_backup(dir, &src, &opts, Some(&icpt), flavor);
                (o.ok_stats().is_some(), o.describe())
            } else {
                let o = run::do_delete(dir, &[], false, false, Some(&icpt), flavor, None);
                (o.op.is_ok(), o.op.describe())
            };
            (ok, desc, icpt.take_log())
        };
        let probe = scratch.fresh("fp");
        st.snap.store(&probe);
        let (_, _, log) = exec(&probe, crate::hook::Plan::none(), Flavor::Current);
        let mut sites: Vec<(Verb, String)> = Vec::new();
        for r in log {
            let wanted = r.verb == Verb::ListDir || (THOROUGH.load(Ordering::Relaxed) == 1 && matches!(r.verb, Verb::Read | Verb::Metadata));
            if wanted && !sites.contains(&(r.verb, r.path.clone())) {
                sites.push((r.verb, r.path.clone()));
            }
        }
        let _ = std::fs::remove_dir_all(&probe);
        for (verb, path) in sites {
            let mut results = Vec::new();
            for (flavor, delay) in [(Flavor::Current, 0u64), (Flavor::Multi(2), 5)] {
                let dir = scratch.fresh("fb");
                st.snap.store(&dir);
                let plan = crate::hook::Plan {
                    fail_path: Some((verb, path.clone(), conserve::transport::ErrorKind::Other, delay)),
                    ..Default::default()
                };
                let (ok, desc, _) = exec(&dir, plan, flavor);
                REEXEC.fetch_add(1, Ordering::Relaxed);
                results.push((ok, Snap::load(&dir).canonical(), desc));
                let _ = std::fs::remove_dir_all(&dir);
            }
            if results[0].0 != results[1].0 || results[0].1 != results[1].1 {
                out.push((
                    Violation::new(
                        format!("C17:archive-differs-between-replays:{what}-with-a-failing-read"),
                        format!(
                            "seed {} after {:?}: {what} with {} of {path} failing, replayed from the same snapshot on the current-thread runtime ({}) and on two workers with the failure delayed ({}): {}",
                            st.seed,
                            st.describe_path(),
                            crate::hook::verb_name(verb),
                            results[0].2,
                            results[1].2,
                            first_difference(&results[0].1, &results[1].1)
                        ),
                    ),
                    hist::case_json("C17", st.seed, &st.path),
                ));
                break;
            }
        }
    }
}

/// Third state rider: the state with a `GC_LOCK` file lying in it, as a gc that was killed leaves
/// it (or one that is still running elsewhere holds it). A gc, a delete and a backup started on
/// it are refused; replayed under the runtime flavours they must leave the same archive (a lock that
/// is there in one replay and gone in another makes every later operation differ).
fn foreign_lock_rider(st: &hist::HState, scratch: &crate::util::Scratch, srcs: &crate::common::SrcCache, out: &mut Vec<(Violation, Value)>) {
    if st.snap.band_ids().is_empty() || st.snap.files.contains_key("GC_LOCK") || (THOROUGH.load(Ordering::Relaxed) == 0 && st.depth > 1) {
        return;
    }
    let src = srcs.dir_for(&st.src.tree());
    let opts = hist::opts_of(0);
    let first = st.snap.band_ids()[0];
    for what in ["gc", "delete", "backup"] {
        let mut results = Vec::new();
        for flavor in [Flavor::Current, Flavor::Multi(2), Flavor::CurrentExitAtOnce] {
            let dir = scratch.fresh("fl");
            st.snap.store(&dir);
            std::fs::write(dir.join("GC_LOCK"), b"{}\n").unwrap();
            let desc = match what {
                "gc" => run::do_delete(&dir, &[], false, false, run::NOHOOK, flavor, None).op.describe(),
                "delete" => run::do_delete(&dir, &[first], false, false, run::NOHOOK, flavor, None).op.describe(),
                _ => run::do_backup(&dir, &src, &opts, run::NOHOOK, flavor).describe(),
            };
            REEXEC.fetch_add(1, Ordering::Relaxed);
            let after = Snap::load(&dir).canonical();
            results.push((after.clone(), desc.clone()));
            let _ = std::fs::remove_dir_all(&dir);
        }
        if results.iter().any(|r| r.0 != results[0].0) {
            out.push((
                Violation::new(
                    format!("C17:archive-differs-between-replays:{what}-on-an-archive-locked-by-someone-else"),
                    format!(
                        "seed {} after {:?} with a GC_LOCK lying there: {what} replayed under three runtimes ({:?}) leaves different archives",
                        st.seed,
                        st.describe_path(),
                        results.iter().map(|r| r.1.chars().take(60).collect::<String>()).collect::<Vec<_>>()
                    ),
                ),
                hist::case_json("C17", st.seed, &st.path),
            ));
            return;
        }
    }
}

static THOROUGH: AtomicUsize = AtomicUsize::new(0);

/// A history at a scale the history graph does not reach: 150 blocks in as many block
/// sub-directories (beyond any fan-out limit of the concurrent listing), every file changed,
/// the first version deleted, gc - replayed into fresh archives under four runtimes.
pub fn many_blocks_replays() -> Vec<(Violation, Value)> {
    let mut out = Vec::new();
    let scratch = crate::util::Scratch::new("c17many");
    let tree = |v: u32| {
        let mut t = crate::tree::empty_tree();
        for i in 0..150u32 {
            t.insert(format!("f{i:03}"), crate::tree::Node::file(format!("v{v} {i:06}").as_bytes(), crate::tree::T0 + 400 + (v * 1000 + i) as i64));
        }
        t
    };
    let opts = run::BOpts::new(100, 1 << 20, 0);
    let srcs: Vec<std::path::PathBuf> = (0..2)
        .map(|v| {
            let d = scratch.fresh("src");
            crate::tree::materialize(&tree(v), &d);
            d
        })
        .collect();
    let mut results: Vec<(String, Snap)> = Vec::new();
    for (flavor, name) in [(Flavor::Current, "current-thread"), (Flavor::Multi(2), "multi-thread-2"), (Flavor::Multi(8), "multi-thread-8"), (Flavor::CurrentExitAtOnce, "exit-at-once")] {
        let dir = scratch.fresh("a");
        run::do_create_archive(&dir);
        let mut steps = Vec::new();
        steps.push(run::do_backup(&dir, &srcs[0], &opts, run::NOHOOK, flavor).describe());
        steps.push(run::do_backup(&dir, &srcs[1], &opts, run::NOHOOK, flavor).describe());
        steps.push(run::do_delete(&dir, &[0], false, false, run::NOHOOK, flavor, None).op.describe());
        steps.push(run::do_backup(&dir, &srcs[1], &opts, run::NOHOOK, flavor).describe());
        steps.push(run::do_delete(&dir, &[], false, false, run::NOHOOK, flavor, None).op.describe());
        REEXEC.fetch_add(5, Ordering::Relaxed);
        results.push((format!("{name}: {steps:?}"), Snap::load(&dir).canonical()));
        let _ = std::fs::remove_dir_all(&dir);
    }
    for r in &results[1..] {
        if r.1 != results[0].1 {
            out.push((
                Violation::new(
                    "C17:archive-differs-between-replays:history-with-hundreds-of-blocks",
                    format!(
                        "backup of 150 one-block files, backup with every file changed, delete of the first version, backup again, gc: {} / {}: {}",
                        results[0].0.chars().take(60).collect::<String>(),
                        r.0.chars().take(60).collect::<String>(),
                        first_difference(&results[0].1, &r.1)
                    ),
                ),
                json!({"kind": "c17-many"}),
            ));
            break;
        }
    }
    out
}

pub fn run(report: &Report, budget: &Budget) {
    for (v, c) in many_blocks_replays() {
        report.violation(&v, &c);
    }
    let thorough = report.thorough();
    THOROUGH.store(thorough as usize, Ordering::Relaxed);
    let depth = if thorough { 3 } else { 2 };
    let st = hist::explore(report, budget, "C17", depth, thorough, false, thorough, &oracle, Some(&on_state), None);
    hist::write_stats(report, &st, depth);
    let re = REEXEC.load(Ordering::Relaxed);
    report.set("re_executions_under_other_flavours", json!(re));
    report.set("traces_validated_against_impl", json!(st.executions + re));
    report.assume("start_time and end_time of BANDHEAD/BANDTAIL are masked; by induction over the history, equal steps from equal parents give equal replays into fresh archives");
    report.assume("flavours: current-thread (with the transport hook, operations synchronous), multi-thread with 2 and 8 workers without hook (real tokio::fs pool and JoinSet scheduling)");
}

pub fn replay(case: &Value) -> Vec<Violation> {
    hist::replay(case, &oracle, Some(&on_state))
}
