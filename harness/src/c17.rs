//! C17: the archive is a pure function of the source and the operation history (E1 histories):
//! every archive-event transition is re-executed under other runtime flavours / worker counts
//! (and both extreme block-deletion orders) from the same parent snapshot and compared byte for byte.

use std::sync::atomic::{AtomicUsize, Ordering};

use serde_json::{json, Value};

use crate::fmt06::Snap;
use crate::hist::{self, Op, Transition};
use crate::report::{Report, Violation};
use crate::run::{self, Flavor};
use crate::util::Budget;

static REEXEC: AtomicUsize = AtomicUsize::new(0);

fn first_difference(a: &Snap, b: &Snap) -> String {
    for (f, bytes) in &a.files {
        match b.files.get(f) {
            None => return format!("{f} exists only in the first run"),
            Some(x) if x != bytes => return format!("{f} differs ({} vs {} bytes)", bytes.len(), x.len()),
            _ => {}
        }
    }
    for f in b.files.keys() {
        if !a.files.contains_key(f) {
            return format!("{f} exists only in the second run");
        }
    }
    for d in a.dirs.symmetric_difference(&b.dirs) {
        return format!("directory {d} exists in only one run");
    }
    "no difference".into()
}

pub fn oracle(tr: &Transition) -> Vec<Violation> {
    let mut v = Vec::new();
    let reference = tr.child.snap.canonical();
    let variants: Vec<(Flavor, Option<Vec<usize>>, &str)> = match &tr.ev.op {
        Op::Backup(_) => vec![
            (Flavor::Multi(2), None, "multi-thread-2"),
            (Flavor::Multi(8), None, "multi-thread-8"),
        ],
        Op::Delete(_) | Op::Gc => vec![
            (Flavor::Multi(2), None, "multi-thread-2"),
            (Flavor::Multi(8), Some(vec![usize::MAX]), "multi-thread-8-reverse-deletion-order"),
            (Flavor::Current, Some(vec![usize::MAX]), "current-thread-reverse-deletion-order"),
        ],
        _ => return v,
    };
    for (flavor, order, name) in variants {
        let dir = tr.scratch.fresh("f");
        tr.parent.snap.store(&dir);
        let src = tr.child.src.tree();
        match &tr.ev.op {
            Op::Backup(o) => {
                let opts = hist::opts_of(*o);
                let _ = run::do_backup(&dir, &tr.srcs.dir_for(&src), &opts, run::NOHOOK, flavor);
            }
            Op::Delete(b) => {
                let _ = run::do_delete(&dir, b, false, false, run::NOHOOK, flavor, order);
            }
            Op::Gc => {
                let _ = run::do_delete(&dir, &[], false, false, run::NOHOOK, flavor, order);
            }
            _ => {}
        }
        REEXEC.fetch_add(1, Ordering::Relaxed);
        let got = Snap::load(&dir).canonical();
        if got != reference {
            v.push(Violation::new(
                format!("C17:archive-differs-between-replays:{}", match &tr.ev.op { Op::Backup(_) => "backup", _ => "delete" }),
                format!("{} replayed as {name}: {}", tr.at(), first_difference(&reference, &got)),
            ));
        }
        let _ = std::fs::remove_dir_all(&dir);
    }
    v
}

pub fn run(report: &Report, budget: &Budget) {
    let thorough = report.thorough();
    let depth = if thorough { 3 } else { 2 };
    let st = hist::explore(report, budget, "C17", depth, thorough, false, thorough, &oracle, None, None);
    hist::write_stats(report, &st, depth);
    let re = REEXEC.load(Ordering::Relaxed);
    report.set("re_executions_under_other_flavours", json!(re));
    report.set("traces_validated_against_impl", json!(st.executions + re));
    report.assume("start_time and end_time of BANDHEAD/BANDTAIL are masked; by induction over the history, equal steps from equal parents give equal replays into fresh archives");
    report.assume("flavours: current-thread (with the transport hook, operations synchronous), multi-thread with 2 and 8 workers without hook (real tokio::fs pool and JoinSet scheduling)");
}

pub fn replay(case: &Value) -> Vec<Violation> {
    hist::replay(case, &oracle, None)
}
