//! C03 (E2 crash enumeration): a backup killed at any point leaves a consistent, usable archive.
//! The same crash cases also feed C14's resume clause (see c14.rs).

use std::collections::{BTreeMap, BTreeSet};
use std::sync::atomic::{AtomicUsize, Ordering};
use std::sync::Mutex;

use serde_json::{json, Value};

use crate::common::{self, restore_exact, Scenario, SrcCache};
use crate::fmt06::{ref_stitch, Snap};
use crate::hook::{Icpt, OpRec, Plan};
use crate::report::{Report, Violation};
use crate::run::{self, Flavor, RestoreArgs, Sel};
use crate::tree::{self, parent_of, Cmp, Tree};
use crate::util::{announce, h64, par_for, Budget, Scratch};

/// Fault-free trace of the scenario's backup.
pub fn reference_trace(scn: &Scenario, srcs: &SrcCache, scratch: &Scratch) -> (Vec<OpRec>, Snap) {
    let dir = scratch.fresh("ref");
    scn.pre.store(&dir);
    let icpt = Icpt::new(&dir, Plan::none());
    let out = run::do_backup(
        &dir,
        &srcs.dir_for(&scn.src),
        &scn.opts,
        Some(&icpt),
        Flavor::Current,
    );
    assert!(
        out.result.is_some() && out.panicked.is_none(),
        "scenario {}: fault-free backup did not finish: {}",
        scn.name,
        out.describe()
    );
    let snap = Snap::load(&dir);
    let _ = std::fs::remove_dir_all(&dir);
    (icpt.take_log(), snap)
}

#[derive(Default)]
pub struct CrashResult {
    pub c03: Vec<Violation>,
    pub c14: Vec<Violation>,
    pub c13: Vec<Violation>,
    pub machinery: Option<String>,
    /// Hash of the canonical archive state at the crash.
    pub state_hash: u64,
    pub outcome: String,
    /// Per-clause counters, for evidence.
    pub clause4_checked: bool,
    pub orphans_seen: usize,
}

/// Run one crash case and evaluate the oracles of C03 (clauses 1-6) and C14c.
pub fn run_crash_case(
    scn: &Scenario,
    trace: &[OpRec],
    k: usize,
    leftover: bool,
    srcs: &SrcCache,
    scratch: &Scratch,
) -> CrashResult {
    let mut res = CrashResult::default();
    let dir = scratch.fresh("a");
    scn.pre.store(&dir);
    let src_dir = srcs.dir_for(&scn.src);
    let icpt = Icpt::new(&dir, Plan::crash(k, leftover));
    let out = run::do_backup(&dir, &src_dir, &scn.opts, Some(&icpt), Flavor::Current);
    let log = icpt.take_log();
    // The prefix must reproduce the reference trace: anything else is a machinery error.
    for (i, r) in log.iter().enumerate() {
        if i >= trace.len() || trace[i].verb != r.verb || trace[i].path != r.path {
            res.machinery = Some(format!(
                "{}: replayed prefix diverges at op {i}: {} vs reference {}",
                scn.name,
                r.brief(),
                trace.get(i).map(|t| t.brief()).unwrap_or_default()
            ));
            return res;
        }
    }
    if !out.crashed {
        if let Some(p) = &out.panicked {
            res.c03.push(Violation::new(
                "C03:backup-panicked-before-crash-point",
                format!("{}: backup panicked before reaching op {k}: {p}", scn.name),
            ));
            return res;
        }
        res.machinery = Some(format!(
            "{}: crash point {k} was not reached: {}",
            scn.name,
            out.describe()
        ));
        return res;
    }
    let snap = Snap::load(&dir);
    res.state_hash = h64(&snap.canonical());
    let new = scn.next_band();
    let at = format!(
        "{} crash before op {k} ({}){}",
        scn.name,
        trace[k].brief(),
        if leftover { " leaving empty file" } else { "" }
    );
    let site = crash_site(&trace[k], leftover);

    // (1) the archive still opens
    let o = run::do_open(&dir);
    if !o.is_ok() {
        res.c03.push(Violation::new(
            format!("C03:open-fails:{site}"),
            format!("{at}: Archive::open: {}", o.describe()),
        ));
    }
    // (2) every previously complete band restores exactly as before
    for b in &scn.complete {
        let diffs = restore_exact(&dir, *b, &scn.band_src[b], scratch, Cmp::FULL);
        if !diffs.is_empty() {
            res.c03.push(Violation::new(
                format!("C03:previous-version-changed:{site}"),
                format!("{at}: b{b:04} no longer restores exactly: {diffs:?}"),
            ));
        }
    }
    // (2b) "as before" includes the default selector: the latest complete version is still found
    // (a band with a BANDTAIL file, even an empty leftover, is complete by the format's definition
    // and clause 6 demands that it restores exactly: then it is the latest complete one)
    let latest_expected = if snap.has_tail_file(scn.next_band()) {
        Some(scn.next_band())
    } else {
        scn.complete.iter().max().cloned()
    };
    if let Some(newest) = latest_expected.as_ref() {
        let (o, got) = run::do_resolve(&dir, Sel::LatestClosed);
        if got != Some(*newest) {
            res.c03.push(Violation::new(
                format!("C03:latest-complete-version-not-found:{site}"),
                format!("{at}: the latest complete version is b{newest:04} but resolving it gives {got:?} ({})", o.describe()),
            ));
        }
    }
    // (3) no index entry anywhere names a missing or short block
    let problems = common::ref_scan(&snap, &snap.band_ids());
    if !problems.is_empty() {
        res.c03.push(Violation::new(
            format!("C03:dangling-block-reference:{site}"),
            format!("{at}: {problems:?}"),
        ));
    }
    // (6) a band that has a tail restores exactly what its backup saw
    for b in snap.band_ids() {
        if snap.has_tail_file(b) && !scn.complete.contains(&b) {
            let expected = if b == new { &scn.src } else { &scn.band_src[&b] };
            let diffs = restore_exact(&dir, b, expected, scratch, Cmp::FULL);
            if !diffs.is_empty() {
                res.c03.push(Violation::new(
                    format!("C03:band-with-tail-not-exact:{site}"),
                    format!("{at}: b{b:04} has a BANDTAIL but: {diffs:?}"),
                ));
            }
        }
    }
    // (4) once its header exists the interrupted band is listed as incomplete and lists / restores
    //     as the stitching rule says
    let head_done = snap.has_head(new);
    let tail_exists = snap.has_tail_file(new);
    if head_done && !tail_exists {
        res.clause4_checked = true;
        let (vo, versions) = run::do_versions(&dir);
        if vo.panicked.is_some() || !vo.is_ok() || !versions.contains(&(new, false)) {
            res.c03.push(Violation::new(
                format!("C03:interrupted-band-not-listed-incomplete:{site}"),
                format!("{at}: versions: {} -> {versions:?}", vo.describe()),
            ));
        }
        let mut band_src = scn.band_src.clone();
        band_src.insert(new, scn.src.clone());
        let v4 = check_stitched(&dir, &snap, new, &band_src, scratch, &at, &site, &mut res.orphans_seen);
        res.c03.extend(v4);
    }
    res.outcome = format!(
        "head={head_done} tail={tail_exists} hunks={}",
        snap.hunk_files(new).len()
    );

    // (7) the state an interruption leaves is a legal state of the format, not damage: unless a
    //     band directory without a usable head or an empty BANDTAIL is lying around (reading
    //     around those is legitimately reported), nothing that reads the archive afterwards has an
    //     error to report - not the listing of the interrupted version, not the later backup.
    let no_debris = snap.band_ids().iter().all(|b| snap.has_head(*b))
        && !snap.files.iter().any(|(f, c)| f.ends_with("/BANDTAIL") && c.is_empty());
    if no_debris && head_done && !tail_exists {
        let (lo, _) = run::do_list(&dir, Sel::Band(new), "/", &[], run::NOHOOK);
        if !lo.monitor_errors.is_empty() {
            res.c03.push(Violation::new(
                format!("C03:listing-interrupted-band-reports-errors:{site}"),
                format!("{at}: listing b{new:04}: {}", lo.describe()),
            ));
        }
    }
    // (5) a later backup of the same source completes and restores exactly
    let icpt2 = Icpt::new(&dir, Plan::none());
    let out2 = run::do_backup(&dir, &src_dir, &scn.opts, Some(&icpt2), Flavor::Current);
    let log2 = icpt2.take_log();
    let snap2 = Snap::load(&dir);
    if no_debris && !out2.monitor_errors.is_empty() {
        res.c03.push(Violation::new(
            format!("C03:follow-up-backup-reports-errors:{site}"),
            format!("{at}: follow-up backup: {}", out2.describe()),
        ));
    }
    match out2.ok_stats() {
        Some(stats) if stats.errors == 0 => {
            let newest = *snap2.band_ids().last().unwrap();
            if !snap2.has_tail_file(newest) || snap.band_ids().contains(&newest) && snap.has_head(newest) {
                res.c03.push(Violation::new(
                    format!("C03:follow-up-backup-no-new-complete-band:{site}"),
                    format!("{at}: follow-up backup returned Ok but newest band b{newest:04} is not a new complete band"),
                ));
            } else {
                let diffs = restore_exact(&dir, newest, &scn.src, scratch, Cmp::FULL);
                if !diffs.is_empty() {
                    res.c03.push(Violation::new(
                        format!("C03:follow-up-backup-not-exact:{site}"),
                        format!("{at}: follow-up b{newest:04}: {diffs:?}"),
                    ));
                }
                // C14 (c): the resumed backup does not rewrite blocks and reuses recorded entries
                res.c14 = c14_resume_oracle(&snap, &snap2, new, newest, &log2, stats, head_done && !tail_exists, &at, &site);
                // The source is unchanged since the newest complete version: the resumed backup
                // writes no block at all and records that version's addresses.
                if let Some(last) = scn.complete.iter().max() {
                    let later_same = scn.band_src.iter().filter(|(b, _)| *b > last).all(|(_, t)| *t == scn.src);
                    if later_same && scn.band_src[last] == scn.src {
                        let writes: Vec<&str> = log2
                            .iter()
                            .filter(|r| r.verb == conserve::transport::record::Verb::Write && r.path.starts_with("d/"))
                            .map(|r| r.path.as_str())
                            .collect();
                        if !writes.is_empty() {
                            res.c14.push(Violation::new(
                                format!("C14:resume-of-unchanged-tree-writes-blocks:{site}"),
                                format!("{at}: the tree equals b{last:04} yet the resumed backup wrote {writes:?}"),
                            ));
                        }
                        // every file is recognised as unmodified (content-hash deduplication
                        // would otherwise hide a lost basis)
                        if stats.new_files != 0 || stats.modified_files != 0 {
                            res.c14.push(Violation::new(
                                format!("C14:resume-of-unchanged-tree-does-not-reuse-entries:{site}"),
                                format!(
                                    "{at}: the tree equals b{last:04} yet the resumed backup counts {} new and {} modified files ({} unmodified)",
                                    stats.new_files, stats.modified_files, stats.unmodified_files
                                ),
                            ));
                        }
                        let old: Vec<_> = snap2.band_entries(*last).into_iter().map(|e| (e.apath, e.addrs)).collect();
                        let newe: Vec<_> = snap2.band_entries(newest).into_iter().map(|e| (e.apath, e.addrs)).collect();
                        if old != newe {
                            res.c14.push(Violation::new(
                                format!("C14:resume-of-unchanged-tree-records-different-addresses:{site}"),
                                format!("{at}: b{newest:04} does not record the addresses of b{last:04}"),
                            ));
                        }
                    }
                }
            }
        }
        _ => {
            res.c03.push(Violation::new(
                format!("C03:follow-up-backup-fails:{site}"),
                format!("{at}: follow-up backup: {}", out2.describe()),
            ));
        }
    }
    // C13 rider: whatever was written conforms to the format, at the crash and after the resume.
    res.c13 = crate::c13::check_snapshot(&snap, Some(&{
        let mut m = scn.band_src.clone();
        m.insert(new, scn.src.clone());
        m
    }), &at);
    let _ = std::fs::remove_dir_all(&dir);
    res
}

/// Name the site of a crash point by the kind of file the interrupted operation targets.
pub fn crash_site(op: &OpRec, leftover: bool) -> String {
    let p = &op.path;
    let class = if p.ends_with("BANDHEAD") {
        "BANDHEAD"
    } else if p.ends_with("BANDTAIL") {
        "BANDTAIL"
    } else if p.contains("/i/") {
        "index-hunk"
    } else if p.ends_with("/i") {
        "index-dir"
    } else if p.starts_with("d/") && p.len() > 6 {
        "block"
    } else if p.starts_with("d/") {
        "block-subdir"
    } else if p == "GC_LOCK" {
        "GC_LOCK"
    } else if p.starts_with('b') && !p.contains('/') {
        "band-dir"
    } else {
        "other"
    };
    format!(
        "{}-{}{}",
        crate::hook::verb_name(op.verb),
        class,
        if leftover { "-empty-leftover" } else { "" }
    )
}

/// Clause 4: listing equals the reference stitch; restore yields the matching content.
#[allow(clippy::too_many_arguments)]
pub fn check_stitched(
    dir: &std::path::Path,
    snap: &Snap,
    band: u32,
    band_src: &BTreeMap<u32, Tree>,
    scratch: &Scratch,
    at: &str,
    site: &str,
    orphans_seen: &mut usize,
) -> Vec<Violation> {
    let mut v = Vec::new();
    let expect = ref_stitch(snap, band);
    let (lo, listed) = run::do_list(dir, Sel::Band(band), "/", &[], run::NOHOOK);
    if lo.panicked.is_some() || !lo.is_ok() {
        v.push(Violation::new(
            format!("C03:listing-interrupted-band-fails:{site}"),
            format!("{at}: listing b{band:04}: {}", lo.describe()),
        ));
        return v;
    }
    let exp_l: Vec<(String, String, Option<String>, Vec<(String, u64, u64)>)> = expect
        .iter()
        .map(|(e, _)| {
            (
                e.apath.clone(),
                e.kind.clone(),
                e.target.clone(),
                e.addrs.iter().map(|a| (a.hash.clone(), a.start, a.len)).collect(),
            )
        })
        .collect();
    let got_l: Vec<_> = listed
        .iter()
        .map(|e| (e.apath.clone(), e.kind.clone(), e.target.clone(), e.addrs.clone()))
        .collect();
    if exp_l != got_l {
        v.push(Violation::new(
            format!("C03:stitched-listing-differs:{site}"),
            format!(
                "{at}: listing b{band:04} gives {:?} but the stitching rule gives {:?}",
                got_l.iter().map(|e| &e.0).collect::<Vec<_>>(),
                exp_l.iter().map(|e| &e.0).collect::<Vec<_>>()
            ),
        ));
        return v;
    }
    // The same version seen through a selection (each of its directories as the subtree, up to
    // four; its last plainly named directory left out by pattern): exactly the matching part of
    // the listing above, in the same order.
    let dirs: Vec<String> = got_l.iter().filter(|e| e.1 == "Dir" && e.0 != "/").map(|e| e.0.clone()).collect();
    let under = |p: &str, s: &str| p == s || (p.starts_with(s) && p.as_bytes().get(s.len()) == Some(&b'/'));
    for s in dirs.iter().take(4) {
        let (lo, part) = run::do_list(dir, Sel::Band(band), s, &[], run::NOHOOK);
        let got_p: Vec<_> = part.iter().map(|e| (e.apath.clone(), e.kind.clone(), e.target.clone(), e.addrs.clone())).collect();
        let want_p: Vec<_> = got_l.iter().filter(|e| under(&e.0, s)).cloned().collect();
        if lo.panicked.is_some() || !lo.is_ok() || got_p != want_p {
            v.push(Violation::new(
                format!("C03:stitched-listing-by-subtree-differs:{site}"),
                format!(
                    "{at}: listing b{band:04} under {s} gives {:?} ({}) but its part of the whole listing is {:?}",
                    got_p.iter().map(|e| &e.0).collect::<Vec<_>>(),
                    lo.describe(),
                    want_p.iter().map(|e| &e.0).collect::<Vec<_>>()
                ),
            ));
            return v;
        }
    }
    if let Some(s) = dirs
        .iter()
        .rev()
        .find(|d| d[1..].chars().all(|c| c.is_ascii_alphanumeric()))
    {
        let (lo, part) = run::do_list(dir, Sel::Band(band), "/", &[s.clone()], run::NOHOOK);
        let got_p: Vec<_> = part.iter().map(|e| (e.apath.clone(), e.kind.clone(), e.target.clone(), e.addrs.clone())).collect();
        let want_p: Vec<_> = got_l.iter().filter(|e| !under(&e.0, s)).cloned().collect();
        if lo.panicked.is_some() || !lo.is_ok() || got_p != want_p {
            v.push(Violation::new(
                format!("C03:stitched-listing-with-exclusion-differs:{site}"),
                format!(
                    "{at}: listing b{band:04} leaving out {s} gives {:?} ({}) but the whole listing less that directory is {:?}",
                    got_p.iter().map(|e| &e.0).collect::<Vec<_>>(),
                    lo.describe(),
                    want_p.iter().map(|e| &e.0).collect::<Vec<_>>()
                ),
            ));
            return v;
        }
    }
    // Expected restore content: new content for paths from the interrupted band, the older
    // version's content for the rest.
    // Ancestors count only if they are listed as directories: an entry below a path that the
    // stitched listing holds as a file or symlink is an orphan as well.
    let listed_paths: BTreeSet<String> = expect
        .iter()
        .filter(|(e, _)| e.kind == "Dir")
        .map(|(e, _)| e.apath[1..].to_string())
        .collect();
    let mut expected = Tree::new();
    let mut orphans: BTreeMap<String, tree::Node> = BTreeMap::new();
    for (e, from) in &expect {
        let key = e.apath[1..].to_string();
        let node = match band_src.get(from).and_then(|t| t.get(&key)) {
            Some(n) => n.clone(),
            None => {
                v.push(Violation::new(
                    format!("C03:stitched-entry-not-in-its-source:{site}"),
                    format!("{at}: {} attributed to b{from:04} whose source has no such path", e.apath),
                ));
                continue;
            }
        };
        let mut anc_ok = true;
        let mut cur = key.as_str();
        while let Some(p) = parent_of(cur) {
            if !listed_paths.contains(p) {
                anc_ok = false;
                break;
            }
            cur = p;
        }
        if anc_ok {
            expected.insert(key, node);
        } else {
            orphans.insert(key, node);
        }
    }
    *orphans_seen += orphans.len();
    let dest = scratch.fresh("rs4");
    let ro = run::do_restore(dir, &dest, &RestoreArgs::band(band), run::NOHOOK, Flavor::Current);
    if ro.panicked.is_some() || !ro.is_ok() {
        v.push(Violation::new(
            format!("C03:restore-interrupted-band-fails:{site}"),
            format!("{at}: restore of b{band:04}: {}", ro.describe()),
        ));
        let _ = std::fs::remove_dir_all(&dest);
        return v;
    }
    let got = match tree::observe(&dest) {
        Ok(g) => g,
        Err(e) => {
            v.push(Violation::new(
                format!("C03:restore-interrupted-band-unreadable:{site}"),
                format!("{at}: {e}"),
            ));
            return v;
        }
    };
    let _ = std::fs::remove_dir_all(&dest);
    // Orphans: restored correctly, or an error was reported. Paths created only as ancestors of
    // orphans are tolerated.
    let mut got_main = got.clone();
    let mut orphan_silent = Vec::new();
    for (k, n) in &orphans {
        match got.get(k) {
            Some(g) if g == n => {}
            _ => {
                if ro.monitor_errors.is_empty() {
                    orphan_silent.push(k.clone());
                }
            }
        }
        got_main.remove(k);
        let mut cur = k.as_str();
        while let Some(p) = parent_of(cur) {
            if !expected.contains_key(p) {
                got_main.remove(p);
            }
            cur = p;
        }
    }
    if !orphan_silent.is_empty() {
        v.push(Violation::new(
            format!("C03:orphaned-entry-silently-dropped:{site}"),
            format!("{at}: {orphan_silent:?} neither restored nor reported"),
        ));
    }
    // (Errors reported while restoring an interrupted version are not a violation in themselves:
    // walking back through a band that cannot be opened, e.g. one with an empty BANDHEAD, is
    // legitimately reported. The statement asks for the right content.)
    let cmp = Cmp {
        root_meta: expected.contains_key(""),
        ..Cmp::FULL
    };
    if !expected.contains_key("") {
        got_main.remove("");
    }
    let diffs = tree::tree_diff(&expected, &got_main, cmp);
    if !diffs.is_empty() {
        v.push(Violation::new(
            format!("C03:restore-interrupted-band-differs:{site}"),
            format!("{at}: restore of b{band:04}: {diffs:?}"),
        ));
    }
    v
}

/// C14 (c): no block the interrupted run had completed is written again; entries it had recorded
/// are reused with identical addresses and counted as unmodified.
#[allow(clippy::too_many_arguments)]
fn c14_resume_oracle(
    crash: &Snap,
    after: &Snap,
    crashed_band: u32,
    new_band: u32,
    log2: &[OpRec],
    stats: &conserve::BackupStats,
    crashed_band_readable: bool,
    at: &str,
    site: &str,
) -> Vec<Violation> {
    let mut v = Vec::new();
    for r in log2 {
        if r.verb == conserve::transport::record::Verb::Write && r.path.starts_with("d/") {
            if crash.files.get(&r.path).is_some_and(|b| !b.is_empty()) {
                v.push(Violation::new(
                    format!("C14:resume-rewrites-stored-block:{site}"),
                    format!("{at}: resumed backup wrote {} which the interrupted run had already stored", r.path),
                ));
            }
        }
    }
    if crashed_band_readable {
        let new_entries: BTreeMap<String, crate::fmt06::REntry> = after
            .band_entries(new_band)
            .into_iter()
            .map(|e| (e.apath.clone(), e))
            .collect();
        let mut recorded_files = 0;
        for e in crash.band_entries(crashed_band) {
            if e.kind != "File" {
                continue;
            }
            recorded_files += 1;
            match new_entries.get(&e.apath) {
                Some(n) if n.addrs == e.addrs => {}
                other => v.push(Violation::new(
                    format!("C14:resume-does-not-reuse-recorded-entry:{site}"),
                    format!(
                        "{at}: {} recorded by the interrupted run with {:?}, resumed run has {:?}",
                        e.apath,
                        e.addrs,
                        other.map(|n| &n.addrs)
                    ),
                )),
            }
        }
        if stats.unmodified_files < recorded_files {
            v.push(Violation::new(
                format!("C14:resume-unmodified-count:{site}"),
                format!(
                    "{at}: interrupted run recorded {recorded_files} files but the resumed run counts {} unmodified",
                    stats.unmodified_files
                ),
            ));
        }
    }
    v
}

pub fn case_json(scn: &Scenario, k: usize, leftover: bool) -> Value {
    json!({"kind": "crash", "scenario": scn.to_json(), "k": k, "leftover": leftover})
}

/// Enumerate the crash cases of a scenario: every mutating operation, plus the empty-file variant
/// of every write whose target does not exist yet.
pub fn crash_points(trace: &[OpRec]) -> Vec<(usize, bool)> {
    let mut v = Vec::new();
    for r in trace {
        if r.is_mutating() {
            v.push((r.idx, false));
            if r.verb == conserve::transport::record::Verb::Write && r.pre == crate::hook::Pre::Absent {
                v.push((r.idx, true));
            }
        }
    }
    // One more: crash after the last operation is the fault-free run; not a crash state.
    v
}

pub fn run(report: &Report, budget: &Budget) {
    let srcs = SrcCache::new();
    let mut scenarios = common::standard_scenarios(&srcs);
    scenarios.extend(common::big_scenarios(&srcs));
    scenarios.extend(common::subdir_scenarios(&srcs));
    // plus every state of the history graph to depth 1 (thorough: 2) as "previous history"
    scenarios.extend(crate::c02::depth_states_as_scenarios(&srcs, if report.thorough() { 2 } else { 1 }, budget));
    let main_scratch = Scratch::new("c03");
    let mut cases: Vec<(usize, usize, bool)> = Vec::new();
    let mut traces = Vec::new();
    let mut final_hashes = Vec::new();
    for (si, scn) in scenarios.iter().enumerate() {
        let (trace, fin) = reference_trace(scn, &srcs, &main_scratch);
        for (k, l) in crash_points(&trace) {
            cases.push((si, k, l));
        }
        final_hashes.push(h64(&fin.canonical()));
        traces.push(trace);
    }
    report.set("scenarios", json!(scenarios.len()));
    report.set(
        "trace_lengths",
        json!(traces.iter().map(|t| t.len()).collect::<Vec<_>>()),
    );
    let states = Mutex::new(BTreeSet::new());
    let clause4 = AtomicUsize::new(0);
    let orphans = AtomicUsize::new(0);
    let scratches: Vec<Scratch> = (0..crate::util::n_workers()).map(|_| Scratch::new("c03w")).collect();
    let done = par_for(cases.len(), budget, |w, i| {
        let (si, k, l) = cases[i];
        let scn = &scenarios[si];
        let _g = announce(w, || format!("C03 {} k={k} leftover={l}", scn.name));
        let r = run_crash_case(scn, &traces[si], k, l, &srcs, &scratches[w]);
        if let Some(m) = r.machinery {
            report.machinery_error(m);
            return;
        }
        if !r.c03.is_empty() {
            // Re-run once: a different observation is a machinery error, not a verdict.
            let r2 = run_crash_case(scn, &traces[si], k, l, &srcs, &scratches[w]);
            let s1: Vec<_> = r.c03.iter().map(|v| v.signature.clone()).collect();
            let s2: Vec<_> = r2.c03.iter().map(|v| v.signature.clone()).collect();
            if s1 != s2 {
                report.machinery_error(format!("C03 case not reproducible: {s1:?} vs {s2:?}"));
                return;
            }
        }
        for v in &r.c03 {
            report.violation(v, &case_json(scn, k, l));
        }
        if r.clause4_checked {
            clause4.fetch_add(1, Ordering::SeqCst);
        }
        orphans.fetch_add(r.orphans_seen, Ordering::SeqCst);
        report.outcome(r.outcome.clone());
        if r.state_hash != final_hashes[si] {
            states.lock().unwrap().insert((si, r.state_hash));
        }
        if i % 37 == 5 {
            report.sample(json!({"scenario": scn.name, "crash_before": traces[si][k].brief(), "empty_file_leftover": l, "state": r.outcome}));
        }
        scratches[w].clear();
    });
    report.set("evaluations", json!(done));
    report.set("crash_cases_total", json!(cases.len()));
    report.set("distinct_nontrivial", json!(states.lock().unwrap().len()));
    report.set("clause4_stitch_checks", json!(clause4.load(Ordering::SeqCst)));
    report.set("orphaned_entries_seen", json!(orphans.load(Ordering::SeqCst)));
    report.set("exhaustive", json!(done == cases.len()));
    report.set("capped", json!(done != cases.len()));
    report.set("rule", json!("for every scenario, every mutating operation k of the fault-free storage trace: stop the world before k; for every write to a not yet existing path additionally leave the target as an empty file. distinct_nontrivial = distinct canonical crash states (per scenario) that differ from the fault-free final state"));
    report.assume("crash granularity = one storage operation plus the empty-file leftover; torn file contents and a half-finished remove_dir_all are not modelled");
    report.assume("local transport on tmpfs; sequentially consistent storage");
}

pub fn replay(case: &Value) -> Vec<Violation> {
    let scn = Scenario::from_json(&case["scenario"]);
    let srcs = SrcCache::new();
    let scratch = Scratch::new("replay");
    let (trace, _) = reference_trace(&scn, &srcs, &scratch);
    let k = case["k"].as_u64().unwrap() as usize;
    let l = case["leftover"].as_bool().unwrap();
    let r = run_crash_case(&scn, &trace, k, l, &srcs, &scratch);
    if let Some(m) = r.machinery {
        eprintln!("machinery: {m}");
    }
    let mut v = r.c03;
    v.extend(r.c14);
    v.extend(r.c13);
    v
}
