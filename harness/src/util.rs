//! Small shared helpers: scratch directories, parallel enumeration, hashing, watchdog.

use std::collections::hash_map::DefaultHasher;
use std::hash::{Hash, Hasher};
use std::path::{Path, PathBuf};
use std::sync::atomic::{AtomicBool, AtomicUsize, Ordering};
use std::sync::{Arc, Mutex, OnceLock};
use std::time::{Duration, Instant};

pub fn h64<T: Hash + ?Sized>(t: &T) -> u64 {
    let mut h = DefaultHasher::new();
    t.hash(&mut h);
    h.finish()
}

static SCRATCH_BASE: OnceLock<PathBuf> = OnceLock::new();

/// Base scratch directory for this process (tmpfs if possible), removed by `cleanup_scratch`.
pub fn scratch_base() -> &'static Path {
    SCRATCH_BASE.get_or_init(|| {
        let pid = std::process::id();
        let shm = PathBuf::from(format!("/dev/shm/vh-{pid}"));
        if std::fs::create_dir_all(&shm).is_ok() {
            return shm;
        }
        let alt = PathBuf::from(format!("/verif/scratch/vh-{pid}"));
        std::fs::create_dir_all(&alt).expect("create scratch dir");
        alt
    })
}

pub fn cleanup_scratch() {
    if let Some(p) = SCRATCH_BASE.get() {
        let _ = fix_perms_and_remove(p);
    }
}

/// Remove a tree even if it contains mode-000 directories (we run as root, so plain removal works,
/// but be defensive).
pub fn fix_perms_and_remove(p: &Path) -> std::io::Result<()> {
    match std::fs::remove_dir_all(p) {
        Ok(()) => Ok(()),
        Err(e) if e.kind() == std::io::ErrorKind::NotFound => Ok(()),
        Err(e) => Err(e),
    }
}

/// A per-worker scratch area with numbered sub-directories.
pub struct Scratch {
    pub root: PathBuf,
    n: AtomicUsize,
}

static SCRATCH_SEQ: AtomicUsize = AtomicUsize::new(0);

impl Scratch {
    pub fn new(tag: &str) -> Scratch {
        let k = SCRATCH_SEQ.fetch_add(1, Ordering::SeqCst);
        let root = scratch_base().join(format!("{tag}-{k}"));
        std::fs::create_dir_all(&root).expect("mk scratch");
        Scratch {
            root,
            n: AtomicUsize::new(0),
        }
    }

    /// A fresh, not yet existing path below this scratch area.
    pub fn fresh(&self, tag: &str) -> PathBuf {
        let k = self.n.fetch_add(1, Ordering::SeqCst);
        self.root.join(format!("{tag}{k}"))
    }

    /// A fresh, existing, empty directory.
    pub fn fresh_dir(&self, tag: &str) -> PathBuf {
        let p = self.fresh(tag);
        std::fs::create_dir_all(&p).expect("mk fresh dir");
        p
    }

    /// Remove everything below the scratch root (keeps the root).
    pub fn clear(&self) {
        if let Ok(rd) = std::fs::read_dir(&self.root) {
            for e in rd.flatten() {
                let p = e.path();
                if p.is_dir() && !p.is_symlink() {
                    let _ = std::fs::remove_dir_all(&p);
                } else {
                    let _ = std::fs::remove_file(&p);
                }
            }
        }
    }
}

impl Drop for Scratch {
    fn drop(&mut self) {
        let _ = fix_perms_and_remove(&self.root);
    }
}

pub fn n_workers() -> usize {
    std::env::var("VERIF_WORKERS")
        .ok()
        .and_then(|s| s.parse().ok())
        .unwrap_or_else(|| {
            std::thread::available_parallelism()
                .map(|n| n.get())
                .unwrap_or(4)
                .min(16)
        })
}

/// Deadline shared by the engines of one check.
#[derive(Clone)]
pub struct Budget {
    start: Instant,
    limit: Duration,
    pub hit: Arc<AtomicBool>,
}

impl Budget {
    pub fn new(secs: u64) -> Budget {
        Budget {
            start: Instant::now(),
            limit: Duration::from_secs(secs),
            hit: Arc::new(AtomicBool::new(false)),
        }
    }
    pub fn exceeded(&self) -> bool {
        if self.start.elapsed() > self.limit {
            self.hit.store(true, Ordering::SeqCst);
            true
        } else {
            false
        }
    }
    pub fn was_hit(&self) -> bool {
        self.hit.load(Ordering::SeqCst)
    }
    pub fn elapsed(&self) -> f64 {
        self.start.elapsed().as_secs_f64()
    }
    /// Fraction of the budget used.
    pub fn frac(&self) -> f64 {
        self.start.elapsed().as_secs_f64() / self.limit.as_secs_f64()
    }
}

/// Watchdog state: each worker announces the case it is running; a monitor thread reports a hang.
pub struct Watch {
    slots: Vec<Mutex<Option<(Instant, String)>>>,
    pub limit: Duration,
}

static WATCH: OnceLock<Arc<Watch>> = OnceLock::new();
static HANG_HANDLER: OnceLock<Box<dyn Fn(&str) + Send + Sync>> = OnceLock::new();

pub fn watch() -> &'static Arc<Watch> {
    WATCH.get_or_init(|| {
        let w = Arc::new(Watch {
            slots: (0..64).map(|_| Mutex::new(None)).collect(),
            limit: Duration::from_secs(
                std::env::var("VERIF_HANG_SECS")
                    .ok()
                    .and_then(|s| s.parse().ok())
                    .unwrap_or(120),
            ),
        });
        let w2 = w.clone();
        std::thread::spawn(move || loop {
            std::thread::sleep(Duration::from_millis(500));
            for s in &w2.slots {
                let g = s.lock().unwrap();
                if let Some((t, name)) = g.as_ref() {
                    if t.elapsed() > w2.limit {
                        let name = name.clone();
                        drop(g);
                        if let Some(h) = HANG_HANDLER.get() {
                            h(&name);
                        }
                        eprintln!("vh: watchdog: case did not finish within {:?}: {name}", w2.limit);
                        // (a verdict already printed stands: the hang is then the harness struggling
                        // with the same broken behaviour, e.g. a workload that is only small while
                        // the property holds)
                        let verdict = crate::report::VIOLATIONS_PRINTED.load(std::sync::atomic::Ordering::SeqCst) > 0;
                        std::process::exit(if verdict { 1 } else { 3 });
                    }
                }
            }
        });
        w
    })
}

/// Install the function called (once) when a case hangs; it should write a replay, print the
/// VIOLATION line and exit.
pub fn set_hang_handler(f: Box<dyn Fn(&str) + Send + Sync>) {
    let _ = HANG_HANDLER.set(f);
}

pub struct WatchGuard(usize);

impl Drop for WatchGuard {
    fn drop(&mut self) {
        *watch().slots[self.0].lock().unwrap() = None;
    }
}

pub fn announce(worker: usize, name: impl FnOnce() -> String) -> WatchGuard {
    let w = watch();
    *w.slots[worker % w.slots.len()].lock().unwrap() = Some((Instant::now(), name()));
    WatchGuard(worker % w.slots.len())
}

/// Run `f(worker_index, item_index)` for every index in `0..n` on a pool of workers.
/// Stops handing out new items once the budget is exceeded; returns the number of items started
/// in index order as a contiguous prefix (`done_prefix`): items `0..done_prefix` were all run.
pub fn par_for<F>(n: usize, budget: &Budget, f: F) -> usize
where
    F: Fn(usize, usize) + Sync,
{
    let next = AtomicUsize::new(0);
    let nw = n_workers().min(n.max(1));
    std::thread::scope(|s| {
        for w in 0..nw {
            let next = &next;
            let f = &f;
            std::thread::Builder::new()
                .stack_size(16 << 20)
                .spawn_scoped(s, move || loop {
                    if budget.exceeded() {
                        break;
                    }
                    let i = next.fetch_add(1, Ordering::SeqCst);
                    if i >= n {
                        break;
                    }
                    f(w, i);
                })
                .expect("spawn worker");
        }
    });
    // Every index handed out was run to completion; indices are handed out in order.
    next.load(Ordering::SeqCst).min(n)
}

pub fn hex(bytes: &[u8]) -> String {
    let mut s = String::with_capacity(bytes.len() * 2);
    for b in bytes {
        s.push_str(&format!("{b:02x}"));
    }
    s
}

/// Short printable form of a byte string for samples and replays.
pub fn show_bytes(b: &[u8]) -> String {
    if b.len() <= 24 && b.iter().all(|c| c.is_ascii_graphic() || *c == b' ') {
        format!("{:?}", String::from_utf8_lossy(b))
    } else {
        format!("<{} bytes h={:016x}>", b.len(), h64(b))
    }
}

/// Budget of a sub-exploration (overridable for development with VERIF_SUB_BUDGET_SECS).
pub fn sub_budget(default_secs: u64) -> Budget {
    Budget::new(
        std::env::var("VERIF_SUB_BUDGET_SECS")
            .ok()
            .and_then(|s| s.parse().ok())
            .unwrap_or(default_secs),
    )
}
