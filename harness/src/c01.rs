//! C01: backup then restore reproduces the source tree exactly (E1 inputs).
//! The case generator is shared with the C13 and C14 riders.

use std::sync::atomic::{AtomicU64, Ordering as AO};
use std::sync::Mutex;

use serde_json::{json, Value};

use crate::common::restore_exact;
use crate::gen::{self, K};
use crate::report::{Report, Violation};
use crate::run::{self, BOpts, Flavor};
use crate::tree::{self, empty_tree, Cmp, Node, Tree, T0};
use crate::util::{announce, par_for, Budget, Scratch};

pub const OPTION_POINTS: [(usize, u64); 6] = [(1, 0), (4, 3), (4, 8), (8, 3), (8, 8), (1 << 20, 1 << 20)];
pub const HUNKS: [usize; 4] = [1, 2, 3, 1000];

/// A lazily built case: (tag, builder of tree, options).
pub struct Case {
    pub tag: String,
    pub tree: Box<dyn Fn() -> Tree + Send + Sync>,
    pub opts: BOpts,
    pub sweep: &'static str,
}

fn size_classes(block: usize, cap: u64) -> Vec<usize> {
    let b = block as i64;
    let c = cap as i64;
    let mut v: Vec<i64> = vec![0, 1, c - 1, c, c + 1, b - 1, b, b + 1, 2 * b, 2 * b + 1, 3 * b];
    v.retain(|x| *x >= 0);
    v.sort();
    v.dedup();
    v.into_iter().map(|x| x as usize).collect()
}

/// File contents: 0 = distinct per entry, 1 = a function of the size only (two files of one size
/// are duplicates), 2 = periodic in the block size and independent of entry and size: every full
/// block of every file is the same block, and a small file equals the tail block (or a full
/// block) of a larger one - the same block content reached through the large-file path and
/// through the small-file combiner within one backup.
fn content(i: usize, size: usize, mode: u8, block: usize) -> Vec<u8> {
    if mode == 2 {
        return (0..size).map(|j| (((j % block.max(1)) * 31 + 7) % 251) as u8).collect();
    }
    let salt = if mode == 1 { 0 } else { i + 1 };
    (0..size).map(|j| ((j * 31 + salt * 37 + size) % 251) as u8).collect()
}

/// Layout sweep: every sequence of at most n entries e0 < e1 < ... in one directory.
fn layout_cases(n: usize, out: &mut Vec<Case>) {
    for (block, cap) in OPTION_POINTS {
        let sizes = size_classes(block, cap);
        // entry classes: 0 = dir, 1 = symlink, 2.. = file of sizes[k-2]
        let nclass = 2 + sizes.len();
        // The 1 MiB option point is enumerated one level shallower (3 MiB files).
        let n_here = if block >= (1 << 20) { n.min(2) } else { n };
        for hunk in HUNKS {
            for len in 1..=n_here {
                let total = nclass.pow(len as u32);
                for code in 0..total {
                    for mode in [0u8, 1, 2] {
                        let shared = mode == 1;
                        if mode > 0 {
                            // 1: only meaningful if two files have the same size
                            // 2: only meaningful with at least two non-empty files
                            let mut k = code;
                            let mut seen = std::collections::BTreeSet::new();
                            let mut dup = false;
                            let mut files = 0;
                            for _ in 0..len {
                                let c = k % nclass;
                                k /= nclass;
                                if c >= 2 && sizes[c - 2] > 0 {
                                    files += 1;
                                }
                                if c >= 2 && !seen.insert(c) {
                                    dup = true;
                                }
                            }
                            if (mode == 1 && !dup) || (mode == 2 && (files < 2 || block >= (1 << 20))) {
                                continue;
                            }
                        }
                        let sizes = sizes.clone();
                        let opts = BOpts::new(hunk, block, cap);
                        out.push(Case {
                            tag: format!("layout block={block} cap={cap} hunk={hunk} len={len} code={code} shared={shared}{}", if mode == 2 { " aligned" } else { "" }),
                            opts,
                            sweep: "layout",
                            tree: Box::new(move || {
                                let mut t = empty_tree();
                                let mut k = code;
                                for i in 0..len {
                                    let c = k % nclass;
                                    k /= nclass;
                                    let name = format!("e{i}");
                                    let mt = T0 + 10 + i as i64;
                                    let node = match c {
                                        0 => Node::dir(mt),
                                        1 => Node::symlink(&format!("e{}", (i + 1) % len), mt),
                                        _ => Node::file(&content(i, sizes[c - 2], mode, block), mt),
                                    };
                                    t.insert(name, node);
                                }
                                t
                            }),
                        });
                    }
                }
            }
        }
    }
}

const STRUCT_NAMES: [&str; 8] = ["a", "a-b", "a.b", "a b", "ab", "é", ".h", "~"];

fn structure_cases(n: usize, out: &mut Vec<Case>) {
    let shapes = gen::shapes(&STRUCT_NAMES, &[K::Dir, K::File, K::Link], n, 3);
    for sh in shapes {
        for hunk in [1usize, 2, 1000] {
            let sh2 = sh.clone();
            out.push(Case {
                tag: format!("structure hunk={hunk} {sh:?}"),
                opts: BOpts::new(hunk, 1 << 20, 1 << 20),
                sweep: "structure",
                tree: Box::new(move || gen::tree_of(&sh2)),
            });
        }
    }
}

pub const MTIMES: [(i64, u32); 12] = [
    (0, 0),
    (1, 0),
    (-1, 0),
    (-2, 500_000_000),          // -1.5 s
    (-1, 999_999_999),          // -1 ns
    (0, 1),                     // +1 ns
    (1_000_000_000, 123_456_789),
    (2_147_483_647, 0),
    (2_147_483_648, 0),
    (2_147_483_646, 999_999_999),
    (-2_147_483_648, 0),
    (-86_400, 250_000_000),
];

fn metadata_cases(out: &mut Vec<Case>) {
    for hunk in [1000usize, 7] {
        out.push(Case {
            tag: format!("metadata all-modes hunk={hunk}"),
            opts: BOpts::new(hunk, 1 << 20, 1 << 20),
            sweep: "modes",
            tree: Box::new(|| {
                let mut t = empty_tree();
                t.insert("d".into(), Node::dir(T0 + 1));
                t.insert("f".into(), Node::dir(T0 + 2));
                for m in 0..0o10000u32 {
                    t.insert(format!("f/{m:04o}"), Node::file(b"x", T0 + 3).with_mode(m));
                    t.insert(format!("d/{m:04o}"), Node::dir(T0 + 4).with_mode(m));
                }
                t
            }),
        });
    }
    for (i, mt) in MTIMES.iter().enumerate() {
        let mt = *mt;
        out.push(Case {
            tag: format!("metadata mtime={}.{:09}", mt.0, mt.1),
            opts: BOpts::new([1000, 1][i % 2], 1 << 20, 1 << 20),
            sweep: "mtimes",
            tree: Box::new(move || {
                let mut t = empty_tree();
                t.insert("dir".into(), Node::dir(T0).with_mtime(mt.0, mt.1));
                t.insert("file".into(), Node::file(b"content", T0).with_mtime(mt.0, mt.1));
                t.insert("link".into(), Node::symlink("file", T0).with_mtime(mt.0, mt.1));
                t
            }),
        });
    }
    for hunk in [1000usize, 3] {
        out.push(Case {
            tag: format!("metadata exotic-names hunk={hunk}"),
            opts: BOpts::new(hunk, 1 << 20, 1 << 20),
            sweep: "names",
            tree: Box::new(|| {
                let long = "n".repeat(200);
                let names: Vec<String> = [
                    "a\nb", "a\\b", "*", "?", "[x]", "-x", " ", " lead", "trail ", "a\tb", "\u{7f}", "ÿ", "日本語", "🎉", "a\u{301}", "CON", "#", "%41", "'q'", "\"dq\"", "..a", "a..", "...",
                ]
                .iter()
                .map(|s| s.to_string())
                .chain([long])
                .collect();
                let mut t = empty_tree();
                t.insert("dir".into(), Node::dir(T0 + 1));
                for (i, n) in names.iter().enumerate() {
                    t.insert(n.clone(), Node::file(format!("f{i}").as_bytes(), T0 + 10 + i as i64));
                    t.insert(format!("dir/{n}"), Node::dir(T0 + 50 + i as i64));
                    t.insert(format!("dir/{n}/{n}"), Node::symlink(n, T0 + 90 + i as i64));
                }
                t
            }),
        });
    }
    out.push(Case {
        tag: "metadata root-mtime-and-mode".into(),
        opts: BOpts::defaults(),
        sweep: "mtimes",
        tree: Box::new(|| {
            let mut t = empty_tree();
            t.insert(String::new(), Node::dir(T0).with_mtime(1_234_567_890, 987_654_321).with_mode(0o750));
            t.insert("file".into(), Node::file(b"content", T0 + 1));
            t
        }),
    });
    for (ui, uid) in [0u32, 1, 2].iter().enumerate() {
        for (gi, gid) in [0u32, 1, 3].iter().enumerate() {
            let (uid, gid) = (*uid, *gid);
            out.push(Case {
                tag: format!("metadata owner uid={uid} gid={gid}"),
                opts: BOpts::new([1000, 1, 2][(ui + gi) % 3], 1 << 20, 1 << 20),
                sweep: "owners",
                tree: Box::new(move || {
                    let mut t = empty_tree();
                    t.insert("dir".into(), Node::dir(T0 + 1).with_owner(uid, gid));
                    t.insert("dir/inner".into(), Node::file(b"inner", T0 + 2).with_owner(gid.min(2), uid));
                    t.insert("file".into(), Node::file(b"content", T0 + 3).with_owner(uid, gid).with_mode(0o640));
                    t.insert("link".into(), Node::symlink("file", T0 + 4).with_owner(uid, gid));
                    t.insert("sfile".into(), Node::file(b"setuid", T0 + 5).with_owner(uid, gid).with_mode(0o4755));
                    t
                }),
            });
        }
    }
}

/// Default options with inputs that cross the size thresholds of the defaults and of the layers
/// below: blocks that stay above 2 MiB after compression, a file just above the 20 MiB block
/// size, files around the 1 MiB small-file threshold.
fn large_cases(out: &mut Vec<Case>) {
    out.push(Case {
        tag: "large: incompressible files of 3 MiB and 2 MiB+4097, default options".into(),
        opts: BOpts::defaults(),
        sweep: "large",
        tree: Box::new(crate::common::tree_big),
    });
    out.push(Case {
        tag: "large: 20 MiB + 5 file, and files of 1 MiB - 1, 1 MiB, 1 MiB + 1, default options".into(),
        opts: BOpts::defaults(),
        sweep: "large",
        tree: Box::new(|| {
            let mut t = empty_tree();
            t.insert("over-a-block".into(), Node::file(&content(0, (20 << 20) + 5, 0, 1), T0 + 70));
            for (i, sz) in [(1usize << 20) - 1, 1 << 20, (1 << 20) + 1].iter().enumerate() {
                t.insert(format!("cap{i}"), Node::file(&crate::common::incompressible(*sz, 10 + i as u64), T0 + 71 + i as i64));
            }
            t
        }),
    });
}

/// Degenerate contents: files that are all zeros (sparse images), of several lengths from 4 KiB up,
/// shorter ones first - each its own block (small-file threshold 0), and two above 1 MiB under the
/// default options.
fn zero_cases(out: &mut Vec<Case>) {
    out.push(Case {
        tag: "zeros: all-zero files of 4096, 5000, 9000 and 70000 bytes, each its own block".into(),
        opts: BOpts::new(1000, 1 << 20, 0),
        sweep: "large",
        tree: Box::new(|| {
            let mut t = empty_tree();
            for (i, sz) in [4096usize, 5000, 9000, 70_000].iter().enumerate() {
                t.insert(format!("z{i}"), Node::file(&vec![0u8; *sz], T0 + 85 + i as i64));
            }
            t.insert("ones".into(), Node::file(&vec![0xffu8; 6000], T0 + 89));
            t
        }),
    });
    out.push(Case {
        tag: "zeros: all-zero files of 1.5 MiB and 2.5 MiB, default options".into(),
        opts: BOpts::defaults(),
        sweep: "large",
        tree: Box::new(|| {
            let mut t = empty_tree();
            t.insert("a.img".into(), Node::file(&vec![0u8; 3 << 19], T0 + 90));
            t.insert("b.img".into(), Node::file(&vec![0u8; 5 << 19], T0 + 91));
            t
        }),
    });
}

/// Unusual magnitudes of the tree itself: depth, name and path length, fan-out, names that look like
/// the archive's own files, the smallest trees, time edges.
fn shape_edge_cases(out: &mut Vec<Case>) {
    out.push(Case {
        tag: "edges: 40 levels deep, 255-byte names, a path of several thousand bytes".into(),
        opts: BOpts::new(7, 1 << 20, 1 << 20),
        sweep: "large",
        tree: Box::new(|| {
            let mut t = empty_tree();
            let mut p = String::new();
            for i in 0..40 {
                if !p.is_empty() {
                    p.push('/');
                }
                p.push_str(&format!("d{i:02}"));
                t.insert(p.clone(), Node::dir(T0 + 100 + i));
            }
            t.insert(format!("{p}/leaf"), Node::file(b"at the bottom", T0 + 150));
            let long = "n".repeat(255);
            let longu = "é".repeat(127); // 254 bytes
            let mut q = String::new();
            for i in 0..12 {
                if !q.is_empty() {
                    q.push('/');
                }
                q.push_str(if i % 2 == 0 { &long } else { &longu });
                t.insert(q.clone(), Node::dir(T0 + 160 + i));
            }
            t.insert(format!("{q}/{long}"), Node::file(b"long path", T0 + 180));
            t.insert(format!("{q}/l"), Node::symlink(&long, T0 + 181));
            t
        }),
    });
    for hunk in [7usize, 1000] {
        out.push(Case {
            tag: format!("edges: 700 entries in one directory, hunk={hunk}"),
            opts: BOpts::new(hunk, 64, 16),
            sweep: "large",
            tree: Box::new(|| {
                let mut t = empty_tree();
                t.insert("wide".into(), Node::dir(T0 + 200));
                for i in 0..700u32 {
                    let name = format!("wide/e{:03}{}", (i * 7) % 700, if i % 3 == 0 { ".d" } else { "" });
                    let node = match i % 3 {
                        0 => Node::dir(T0 + 201),
                        1 => Node::file(format!("file {i}").as_bytes(), T0 + 202),
                        _ => Node::symlink("e000.d", T0 + 203),
                    };
                    t.insert(name, node);
                }
                t
            }),
        });
    }
    // Sibling directories whose names extend one another with a byte below '/', the shorter one
    // holding a nested directory: comparing whole paths, or directory strings, as bytes orders
    // them differently from the component-wise rule. And names the index has to escape.
    for hunk in [2usize, 1000] {
        out.push(Case {
            tag: format!("edges: prefix-named sibling directories with nested contents, escaped names, hunk={hunk}"),
            opts: BOpts::new(hunk, 8, 6),
            sweep: "large",
            tree: Box::new(|| {
                let mut t = empty_tree();
                for (i, d) in ["a", "a-b", "a.d", "a b", "a!", "conf", "conf.d"].iter().enumerate() {
                    t.insert(d.to_string(), Node::dir(T0 + 240 + i as i64));
                    t.insert(format!("{d}/y{i}"), Node::file(format!("in {d}").as_bytes(), T0 + 250 + i as i64));
                }
                t.insert("a/c".into(), Node::dir(T0 + 260));
                t.insert("a/c/x".into(), Node::file(b"nested", T0 + 261));
                t.insert("conf/sub".into(), Node::dir(T0 + 262));
                t.insert("conf/sub/deep".into(), Node::file(b"deep", T0 + 263));
                t.insert("a/q\"uote".into(), Node::file(b"quote", T0 + 264));
                t.insert("a/back\\slash".into(), Node::file(b"backslash", T0 + 265));
                t.insert("a/new\nline".into(), Node::symlink("c", T0 + 266));
                t.insert("tab\there".into(), Node::dir(T0 + 267));
                t.insert("tab\there/in".into(), Node::file(b"tab", T0 + 268));
                t
            }),
        });
    }
    out.push(Case {
        tag: "edges: names that look like the archive's own files".into(),
        opts: BOpts::new(2, 8, 3),
        sweep: "large",
        tree: Box::new(|| {
            let mut t = empty_tree();
            for (i, n) in ["BANDHEAD", "BANDTAIL", "CONSERVE", "GC_LOCK", "b0000", "d", "i"].iter().enumerate() {
                if i % 2 == 0 {
                    t.insert(n.to_string(), Node::file(n.as_bytes(), T0 + 210 + i as i64));
                } else {
                    t.insert(n.to_string(), Node::dir(T0 + 210 + i as i64));
                    t.insert(format!("{n}/BANDHEAD"), Node::file(b"{}", T0 + 220));
                    t.insert(format!("{n}/00000"), Node::dir(T0 + 221));
                    t.insert(format!("{n}/00000/000000000"), Node::file(b"not a hunk", T0 + 222));
                }
            }
            t
        }),
    });
    for (k, name) in ["only the root", "one empty file", "one one-byte file", "one empty directory"].iter().enumerate() {
        for opts in [BOpts::defaults(), BOpts::new(1, 1, 0)] {
            out.push(Case {
                tag: format!("edges: {name}, {}", opts.describe()),
                opts,
                sweep: "large",
                tree: Box::new(move || {
                    let mut t = empty_tree();
                    match k {
                        1 => {
                            t.insert("e".into(), Node::file(b"", T0 + 230));
                        }
                        2 => {
                            t.insert("e".into(), Node::file(b"x", T0 + 231));
                        }
                        3 => {
                            t.insert("e".into(), Node::dir(T0 + 232));
                        }
                        _ => {}
                    }
                    t
                }),
            });
        }
    }
    out.push(Case {
        tag: "edges: times around 2^32 seconds, far in the future, nanoseconds 999999999".into(),
        opts: BOpts::defaults(),
        sweep: "large",
        tree: Box::new(|| {
            let mut t = empty_tree();
            for (i, (sec, ns)) in [(4_294_967_295i64, 999_999_999u32), (4_294_967_296, 0), (4_294_967_296, 1), (32_503_680_000, 5), (-2_147_483_649, 999_999_999), (-62_135_596_800, 0)].iter().enumerate() {
                t.insert(format!("t{i}"), Node::file(format!("{sec}").as_bytes(), T0).with_mtime(*sec, *ns));
                t.insert(format!("td{i}"), Node::dir(T0).with_mtime(*sec, *ns));
            }
            t
        }),
    });
}

/// More distinct blocks than the block cache holds (100) and than the listing fans out at once
/// (30 sub-directories): 150 one-block files, then 150 files with the same contents again, so that
/// every block is read a second time after it has been evicted.
fn many_blocks_case(out: &mut Vec<Case>) {
    out.push(Case {
        tag: "many blocks: 150 one-block files and 150 duplicates of them, block 8, cap 3".into(),
        opts: BOpts::new(1000, 8, 3),
        sweep: "large",
        tree: Box::new(|| {
            let mut t = empty_tree();
            for round in 0..2 {
                for i in 0..150u32 {
                    t.insert(format!("r{round}f{i:03}"), Node::file(format!("{i:08}").as_bytes(), T0 + 80 + i as i64));
                }
            }
            t
        }),
    });
}

/// More than 10 000 index hunks, so that hunk sub-directory i/00001 is used.
fn rollover_case(out: &mut Vec<Case>) {
    out.push(Case {
        tag: "hunk-subdirectory rollover: 10 030 entries, one per hunk".into(),
        opts: BOpts::new(1, 1 << 20, 1 << 20),
        sweep: "rollover",
        tree: Box::new(|| {
            let mut t = empty_tree();
            for d in 0..10 {
                t.insert(format!("d{d}"), Node::dir(T0 + 1));
            }
            for i in 0..10_015u32 {
                let n = if i % 5 == 0 {
                    Node::file(format!("{i}").as_bytes(), T0 + 2)
                } else {
                    Node::file(b"", T0 + 2)
                };
                t.insert(format!("d{}/f{i:05}", i % 10), n);
            }
            t
        }),
    });
}

pub fn cases(thorough: bool) -> Vec<Case> {
    let mut v = Vec::new();
    metadata_cases(&mut v);
    rollover_case(&mut v);
    large_cases(&mut v);
    many_blocks_case(&mut v);
    zero_cases(&mut v);
    shape_edge_cases(&mut v);
    structure_cases(if thorough { 4 } else { 3 }, &mut v);
    layout_cases(if thorough { 3 } else { 2 }, &mut v);
    if thorough {
        // the deepest layout level last, so a time cap cuts only it
        let mut deep = Vec::new();
        layout_cases(4, &mut deep);
        v.extend(deep.into_iter().filter(|c| c.tag.contains("len=4")));
    }
    v
}

pub static OUTCOMES: Mutex<std::collections::BTreeSet<String>> = Mutex::new(std::collections::BTreeSet::new());

pub fn judge(t: &Tree, opts: &BOpts, tag: &str, sweep: &str, scratch: &Scratch) -> Vec<Violation> {
    let mut v = Vec::new();
    let src = scratch.fresh("src");
    tree::materialize(t, &src);
    let arch = scratch.fresh("a");
    run::do_create_archive(&arch);
    let out = run::do_backup(&arch, &src, opts, run::NOHOOK, Flavor::Current);
    if let Some(p) = &out.panicked {
        let site = p.split(": ").next().unwrap_or("").rsplit('/').next().unwrap_or("").split(':').next().unwrap_or("").to_string();
        v.push(Violation::new(
            format!("C01:backup-panicked:{site}:{sweep}"),
            format!("{tag}: backup panicked: {p}"),
        ));
        return v;
    }
    if !out.clean_success() {
        v.push(Violation::new(
            format!("C01:backup-reported-errors:{sweep}"),
            format!("{tag}: {} {:?}", out.describe(), out.monitor_errors),
        ));
        return v;
    }
    if let Some(st) = out.ok_stats() {
        // outcome class: which storage paths this input exercised
        OUTCOMES.lock().unwrap().insert(format!(
            "written_blocks={} combined_blocks={} dedup={} empty_files={} single_block={} multi_block={} small_combined={} symlinks={} dirs={}",
            st.written_blocks.min(4),
            st.combined_blocks.min(3),
            st.deduplicated_blocks.min(2),
            st.empty_files.min(1),
            st.single_block_files.min(2),
            st.multi_block_files.min(2),
            st.small_combined_files.min(3),
            st.symlinks.min(1),
            st.directories.min(2)
        ));
    }
    let diffs = restore_exact(&arch, 0, t, scratch, Cmp::FULL);
    if !diffs.is_empty() {
        let joined = diffs.join("; ");
        let what = if joined.contains("panicked") {
            "restore-panicked"
        } else if joined.contains("reported errors") || joined.contains("failed") {
            "restore-reported-errors"
        } else if diffs.iter().all(|d| d.starts_with("differs") && mode_only_special_bits(d)) {
            "restore-loses-setuid-setgid-sticky"
        } else if diffs.iter().all(|d| d.starts_with("differs")) {
            "restore-metadata-or-content-differs"
        } else {
            "restore-path-set-differs"
        };
        v.push(Violation::new(
            format!("C01:{what}:{sweep}"),
            format!("{tag}: {}", diffs.iter().take(4).cloned().collect::<Vec<_>>().join("; ")),
        ));
    }
    v
}

/// Does a "differs" line differ only in the 07000 mode bits?
fn mode_only_special_bits(line: &str) -> bool {
    let modes: Vec<u32> = line
        .split("mode=")
        .skip(1)
        .filter_map(|s| u32::from_str_radix(s.split(' ').next().unwrap_or(""), 8).ok())
        .collect();
    let parts: Vec<&str> = line.split(" got ").collect();
    if modes.len() != 2 || parts.len() != 2 {
        return false;
    }
    let strip = |s: &str| s.split("mode=").map(|p| p.split_once(' ').map(|x| x.1).unwrap_or("")).collect::<Vec<_>>().join("|");
    let e = parts[0].split_once("expected ").map(|x| x.1).unwrap_or("");
    modes[0] & 0o777 == modes[1] & 0o777 && modes[0] != modes[1] && strip(e) == strip(parts[1])
}

pub fn for_each_case(
    report: &Report,
    budget: &Budget,
    label: &str,
    f: &(dyn Fn(&Case, &Tree, &Scratch) -> Vec<Violation> + Sync),
) -> (usize, usize) {
    let all = cases(report.thorough());
    let scratches: Vec<Scratch> = (0..crate::util::n_workers()).map(|_| Scratch::new("c01")).collect();
    let by_sweep: Mutex<std::collections::BTreeMap<&'static str, u64>> = Mutex::new(Default::default());
    let n = AtomicU64::new(0);
    let done = par_for(all.len(), budget, |w, i| {
        let c = &all[i];
        let _g = announce(w, || format!("{label} {}", c.tag));
        let t = (c.tree)();
        for v in f(c, &t, &scratches[w]) {
            let tj = if t.len() <= 40 && c.sweep != "large" { tree::tree_to_json(&t) } else { json!(null) };
            report.violation(&v, &json!({"kind": "c01", "check": label, "tag": c.tag, "tree": tj, "opts": c.opts.to_json(), "sweep": c.sweep}));
        }
        n.fetch_add(1, AO::Relaxed);
        *by_sweep.lock().unwrap().entry(c.sweep).or_insert(0) += 1;
        if i % 3001 == 40 || i == 3 {
            report.sample(json!({"case": c.tag, "tree": tree::tree_brief(&t).chars().take(200).collect::<String>()}));
        }
        scratches[w].clear();
    });
    report.set("cases_by_sweep", json!(*by_sweep.lock().unwrap()));
    report.set("cases_total", json!(all.len()));
    (done, all.len())
}

pub fn run(report: &Report, budget: &Budget) {
    let f = |c: &Case, t: &Tree, scratch: &Scratch| judge(t, &c.opts, &c.tag, c.sweep, scratch);
    let (done, total) = for_each_case(report, budget, "C01", &f);
    for o in OUTCOMES.lock().unwrap().iter() {
        report.outcome(o.clone());
    }
    report.set("states", json!(done));
    report.set("transitions", json!(done * 2));
    report.set("traces_validated_against_impl", json!(done));
    report.set("exhaustive", json!(done == total));
    report.set("explanation", json!("states = (tree, options) inputs enumerated completely per sweep: layout (entry sequences over size classes x 24 option points), structure (all tree shapes over the names menu), metadata (all 4096 modes on files and directories, the mtime menu, the owner/group menu); each is backed up and restored by the real code and compared with the tree model via lstat/readlink/read"));
    report.assume("runs as root on tmpfs so owner, group, mode 000 and set-id bits are observable");
    report.assume("cross products between the three sweeps are covered only diagonally (the code has no cross-entry metadata interaction)");
    report.assume("max_block_size >= 1");
}

pub fn replay(case: &Value) -> Vec<Violation> {
    let scratch = Scratch::new("replay");
    let opts = BOpts::from_json(&case["opts"]);
    let tag = case["tag"].as_str().unwrap_or("");
    let sweep: &'static str = match case["sweep"].as_str().unwrap_or("") {
        "layout" => "layout",
        "structure" => "structure",
        "modes" => "modes",
        "mtimes" => "mtimes",
        "names" => "names",
        "rollover" => "rollover",
        "large" => "large",
        _ => "owners",
    };
    let t = match tree::tree_from_json(&case["tree"]) {
        Some(t) => t,
        None => {
            // big trees are regenerated from their tag
            match cases(true).into_iter().find(|c| c.tag == tag) {
                Some(c) => (c.tree)(),
                None => return vec![],
            }
        }
    };
    match case["check"].as_str().unwrap_or("C01") {
        "C14" => crate::c14::judge_rebackup(&t, &opts, tag, &scratch),
        "C13" => crate::c13::judge_case(&t, &opts, tag, &scratch),
        _ => judge(&t, &opts, tag, sweep, &scratch),
    }
}
