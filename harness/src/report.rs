//! Violations, known findings, replay artefacts and evidence files.

use std::collections::{BTreeMap, BTreeSet};
use std::path::PathBuf;
use std::sync::Mutex;
use std::time::Instant;

use serde_json::{json, Map, Value};

use crate::util::h64;

pub fn verif_dir() -> PathBuf {
    std::env::var("VERIF_DIR")
        .map(PathBuf::from)
        .unwrap_or_else(|_| PathBuf::from("/verif"))
}

/// Number of VIOLATION lines printed by this process (read by the panic hook: a harness failure
/// after a verdict has been printed must not turn the exit status into a machinery error).
pub static VIOLATIONS_PRINTED: std::sync::atomic::AtomicUsize = std::sync::atomic::AtomicUsize::new(0);

#[derive(Clone, Debug)]
pub struct Violation {
    /// Names the failing site (not the property): used to match known findings and to deduplicate.
    pub signature: String,
    /// Human-readable description of observed vs expected.
    pub what: String,
}

impl Violation {
    pub fn new(signature: impl Into<String>, what: impl Into<String>) -> Violation {
        Violation {
            signature: signature.into(),
            what: what.into(),
        }
    }
}

struct Known {
    signature: String,
    what: String,
}

fn load_known(property: &str) -> Vec<Known> {
    let p = verif_dir().join("known_findings.jsonl");
    let mut out = Vec::new();
    if let Ok(s) = std::fs::read_to_string(p) {
        for line in s.lines() {
            let line = line.trim();
            if !line.starts_with('{') {
                continue; // "fixed: ..." lines and comments suppress nothing
            }
            if let Ok(v) = serde_json::from_str::<Value>(line) {
                if v["property"].as_str() == Some(property) {
                    if let Some(sig) = v["signature"].as_str() {
                        out.push(Known {
                            signature: sig.to_string(),
                            what: v["what"].as_str().unwrap_or("").to_string(),
                        });
                    }
                }
            }
        }
    }
    out
}

struct Inner {
    new_sigs: BTreeMap<String, (String, String, usize)>, // sig -> (what, replay path, count)
    known_hits: BTreeMap<String, usize>,
    samples: Vec<Value>,
    coverage: Map<String, Value>,
    assumptions: Vec<String>,
    outcomes: BTreeSet<String>,
    machinery_errors: Vec<String>,
}

pub struct Report {
    pub id: String,
    pub tier: String,
    pub seed: u64,
    pub level: String,
    start: Instant,
    known: Vec<Known>,
    inner: Mutex<Inner>,
}

impl Report {
    pub fn new(id: &str, tier: &str, level: &str) -> Report {
        let seed = std::env::var("VERIF_SEED")
            .ok()
            .and_then(|s| s.parse().ok())
            .unwrap_or(0);
        Report {
            id: id.to_string(),
            tier: tier.to_string(),
            seed,
            level: level.to_string(),
            start: Instant::now(),
            known: load_known(id),
            inner: Mutex::new(Inner {
                new_sigs: BTreeMap::new(),
                known_hits: BTreeMap::new(),
                samples: Vec::new(),
                coverage: Map::new(),
                assumptions: Vec::new(),
                outcomes: BTreeSet::new(),
                machinery_errors: Vec::new(),
            }),
        }
    }

    pub fn thorough(&self) -> bool {
        self.tier == "thorough"
    }

    /// Is this signature a listed known finding?
    pub fn is_known(&self, sig: &str) -> bool {
        self.known.iter().any(|k| k.signature == sig)
    }

    /// Record a violation found on `case` (a self-contained replayable description).
    pub fn violation(&self, v: &Violation, case: &Value) {
        let mut g = self.inner.lock().unwrap();
        if self.is_known(&v.signature) {
            *g.known_hits.entry(v.signature.clone()).or_insert(0) += 1;
            return;
        }
        if let Some(e) = g.new_sigs.get_mut(&v.signature) {
            e.2 += 1;
            return;
        }
        let dir = verif_dir().join("replays");
        let _ = std::fs::create_dir_all(&dir);
        let body = json!({"property": self.id, "signature": v.signature, "what": v.what, "case": case});
        let text = serde_json::to_string_pretty(&body).unwrap();
        let path = dir.join(format!("{}-{:016x}.json", self.id, h64(&text)));
        let _ = std::fs::write(&path, text);
        VIOLATIONS_PRINTED.fetch_add(1, std::sync::atomic::Ordering::SeqCst);
        println!(
            "VIOLATION property={} replay={}",
            self.id,
            path.to_string_lossy()
        );
        println!("  signature: {}", v.signature);
        println!("  what: {}", v.what);
        g.new_sigs.insert(
            v.signature.clone(),
            (v.what.clone(), path.to_string_lossy().into_owned(), 1),
        );
    }

    pub fn machinery_error(&self, what: impl Into<String>) {
        let w = what.into();
        eprintln!("vh: MACHINERY ERROR: {w}");
        self.inner.lock().unwrap().machinery_errors.push(w);
    }

    pub fn sample(&self, v: Value) {
        let mut g = self.inner.lock().unwrap();
        if g.samples.len() < 6 {
            g.samples.push(v);
        }
    }

    /// Record one observed outcome class (to show the exploration is not vacuous).
    pub fn outcome(&self, s: impl Into<String>) {
        self.inner.lock().unwrap().outcomes.insert(s.into());
    }

    pub fn set(&self, key: &str, v: Value) {
        self.inner.lock().unwrap().coverage.insert(key.to_string(), v);
    }

    pub fn add(&self, key: &str, n: u64) {
        let mut g = self.inner.lock().unwrap();
        let cur = g.coverage.get(key).and_then(|v| v.as_u64()).unwrap_or(0);
        g.coverage.insert(key.to_string(), json!(cur + n));
    }

    pub fn assume(&self, s: &str) {
        let mut g = self.inner.lock().unwrap();
        if !g.assumptions.iter().any(|a| a == s) {
            g.assumptions.push(s.to_string());
        }
    }

    pub fn n_new_violations(&self) -> usize {
        self.inner.lock().unwrap().new_sigs.len()
    }

    /// Write the evidence file, print the summary lines and return the process exit code.
    pub fn finish(&self) -> i32 {
        let g = self.inner.lock().unwrap();
        for (sig, n) in &g.known_hits {
            let what = self
                .known
                .iter()
                .find(|k| &k.signature == sig)
                .map(|k| k.what.clone())
                .unwrap_or_default();
            println!(
                "KNOWN-FINDING: property={} {} [{}] ({} cases)",
                self.id, what, sig, n
            );
        }
        for (sig, (_, path, n)) in &g.new_sigs {
            if *n > 1 {
                println!(
                    "  ({} further cases with signature {:?}; first replay {})",
                    n - 1,
                    sig,
                    path
                );
            }
        }
        let mut coverage = g.coverage.clone();
        coverage.insert("samples".into(), Value::Array(g.samples.clone()));
        coverage.insert(
            "distinct_outcomes".into(),
            json!(g.outcomes.len()),
        );
        coverage.insert(
            "outcome_classes".into(),
            json!(g.outcomes.iter().take(40).cloned().collect::<Vec<_>>()),
        );
        coverage.insert(
            "known_findings_hit".into(),
            json!(g.known_hits.iter().map(|(k, v)| json!({"signature": k, "cases": v})).collect::<Vec<_>>()),
        );
        let total_viol: usize = g.new_sigs.values().map(|e| e.2).sum();
        let ev = json!({
            "property_id": self.id,
            "tier": self.tier,
            "seed": self.seed,
            "level": self.level,
            "coverage": Value::Object(coverage),
            "assumptions": g.assumptions,
            "wall_s": self.start.elapsed().as_secs_f64(),
            "violations": total_viol,
        });
        let dir = verif_dir().join("evidence");
        let _ = std::fs::create_dir_all(&dir);
        let path = dir.join(format!("{}.json", self.id));
        std::fs::write(&path, serde_json::to_string_pretty(&ev).unwrap() + "\n")
            .expect("write evidence");
        if !g.machinery_errors.is_empty() {
            eprintln!(
                "vh: {} machinery error(s); this run is not a verdict",
                g.machinery_errors.len()
            );
            return 2;
        }
        if g.new_sigs.is_empty() {
            println!(
                "OK property={} tier={} wall_s={:.1} known_findings={}",
                self.id,
                self.tier,
                self.start.elapsed().as_secs_f64(),
                g.known_hits.len()
            );
            0
        } else {
            1
        }
    }
}
