//! C02: every completed version keeps restoring to its own snapshot (E1 histories).

use std::sync::Mutex;

use serde_json::{json, Value};

use crate::common::{restore_exact, Scenario, SrcCache};
use crate::hist::{self, HState, Op, Transition};
use crate::report::{Report, Violation};
use crate::run::{self, Sel};
use crate::tree::Cmp;
use crate::util::Budget;

/// After every archive event: every live complete band restores to its snapshot; "latest
/// complete" resolves to the newest of them.
pub fn oracle(tr: &Transition) -> Vec<Violation> {
    let mut v = Vec::new();
    if matches!(tr.ev.op, Op::Garbage(_)) {
        return v;
    }
    let site = match &tr.ev.op {
        Op::Backup(_) => "after-backup",
        Op::Crashed(..) => "after-interrupted-backup",
        Op::Delete(_) => "after-delete",
        Op::Gc => "after-gc",
        Op::Garbage(_) => "after-garbage",
    };
    for (b, expected) in &tr.child.live {
        let diffs = restore_exact(tr.dir, *b, expected, tr.scratch, Cmp::FULL);
        if !diffs.is_empty() {
            v.push(Violation::new(
                format!("C02:version-does-not-restore-to-its-snapshot:{site}"),
                format!("{}: b{b:04}: {diffs:?}", tr.at()),
            ));
        }
    }
    if let Some(newest) = tr.child.live.keys().max() {
        let (o, got) = run::do_resolve(tr.dir, Sel::LatestClosed);
        if got != Some(*newest) {
            let headless = tr
                .child
                .snap
                .band_ids()
                .iter()
                .any(|b| !tr.child.snap.files.contains_key(&format!("b{b:04}/BANDHEAD")));
            let sig = if headless {
                "C02:latest-complete-unresolvable:a-band-dir-without-BANDHEAD-exists".to_string()
            } else {
                format!("C02:latest-complete-wrong:{site}")
            };
            v.push(Violation::new(
                sig,
                format!(
                    "{}: latest complete version should be b{newest:04}, got {got:?} ({})",
                    tr.at(),
                    o.describe()
                ),
            ));
        }
    }
    v
}

fn depths(report: &Report) -> (usize, bool, bool) {
    if report.thorough() {
        (3, true, true)
    } else {
        (2, false, false)
    }
}

/// "Asking for the latest complete version selects the newest of them" where band ids get one more
/// digit or contain every digit: complete versions at ids (8, 9, 10), (98, 99, 100), (9998, 9999,
/// 10000) written by the independent writer, with every subset of them being complete.
pub fn high_id_cases() -> Vec<(Violation, Value)> {
    use crate::fmt06::{self, BandSpec};
    let mut out = Vec::new();
    let scratch = crate::util::Scratch::new("c02ids");
    for base in [8u32, 98, 9998] {
        for mask in 1u32..8 {
            let dir = scratch.fresh("a");
            fmt06::write_archive_skeleton(&dir);
            let mut newest_complete = None;
            for i in 0..3u32 {
                let complete = mask & (1 << i) != 0;
                fmt06::write_band(
                    &dir,
                    &BandSpec {
                        id: base + i,
                        head: true,
                        tail: if complete { Some(1) } else { None },
                        hunks: vec![vec![fmt06::symlink_entry("/a", &format!("from-b{}", base + i))]],
                    },
                );
                if complete {
                    newest_complete = Some(base + i);
                }
            }
            let (o, got) = crate::run::do_resolve(&dir, crate::run::Sel::LatestClosed);
            if got != newest_complete {
                out.push((
                    Violation::new(
                        "C02:latest-complete-version-wrong:band-ids-with-more-digits",
                        format!("versions b{base}..b{} with completeness mask {mask:03b}: the latest complete one is {newest_complete:?}, resolving gives {got:?} ({})", base + 2, o.describe()),
                    ),
                    json!({"kind": "c02-ids"}),
                ));
            }
            let _ = std::fs::remove_dir_all(&dir);
        }
    }
    out
}

pub fn run(report: &Report, budget: &Budget) {
    for (v, c) in high_id_cases() {
        report.violation(&v, &c);
    }
    let (d, full, allcp) = depths(report);
    let st = hist::explore(report, budget, "C02", d, full, allcp, true, &oracle, None, None);
    hist::write_stats(report, &st, d);
}

pub fn replay(case: &Value) -> Vec<Violation> {
    hist::replay(case, &oracle, None)
}

/// States of the history graph up to `depth`, turned into crash scenarios for C03 (thorough).
pub fn depth_states_as_scenarios(_srcs: &SrcCache, depth: usize, budget: &Budget) -> Vec<Scenario> {
    let dummy = Report::new("C03-scenarios", "quick", "model_checking");
    let collected: Mutex<Vec<HState>> = Mutex::new(Vec::new());
    let sub = Budget::new(if depth >= 2 { 360 } else { 20 });
    let noop = |_: &Transition| Vec::new();
    hist::explore(&dummy, &sub, "C03", depth, false, false, false, &noop, None, Some(&collected));
    let mut out = Vec::new();
    for st in collected.into_inner().unwrap() {
        for (i, src) in [hist::SRC0, hist::SRC0.set(0, 2).set(2, 2).set(1, 0)].iter().enumerate() {
            out.push(Scenario {
                name: format!("H[seed {} {:?}]+src{}", st.seed, st.describe_path(), i),
                pre: st.snap.clone(),
                band_src: st.heads.clone(),
                complete: st.live.keys().cloned().collect(),
                src: src.tree(),
                opts: hist::opts_p(),
            });
        }
    }
    let _ = json!(null);
    out
}
