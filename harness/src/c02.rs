//! C02 (stub during build)
use crate::common::{Scenario, SrcCache};
use crate::util::Budget;
pub fn depth_states_as_scenarios(_srcs: &SrcCache, _depth: usize, _budget: &Budget) -> Vec<Scenario> {
    Vec::new()
}
