//! The command-line route: the same operations driven through the tool's own front end
//! (`src/bin/conserve.rs` of /repo, compiled next to this harness against the same library build).
//! Each function is a small, completely enumerated sub-sweep of one property in which every
//! operation goes through the command line; only exit status (zero / non-zero), `ls --json` paths,
//! `diff` / `backup -v` lines (`<sigil> <path>`) and the resulting files are looked at.

use std::collections::BTreeSet;
use std::path::{Path, PathBuf};
use std::process::Command;
use std::sync::atomic::{AtomicU64, Ordering};

use serde_json::{json, Value};

use crate::common;
use crate::fmt06::{apath_cmp, apath_under, ref_stitch, Snap};
use crate::report::{Report, Violation};
use crate::tree::{self, empty_tree, Cmp, Node, Tree, T0};
use crate::util::Scratch;

pub static RUNS: AtomicU64 = AtomicU64::new(0);

pub struct CliOut {
    pub code: i32,
    pub stdout: String,
    pub stderr: String,
}

impl CliOut {
    pub fn ok(&self) -> bool {
        self.code == 0
    }
    pub fn brief(&self) -> String {
        format!(
            "exit {} stderr {:?}",
            self.code,
            self.stderr.chars().take(200).collect::<String>()
        )
    }
    pub fn lines(&self) -> Vec<String> {
        self.stdout.lines().map(|l| l.to_string()).collect()
    }
}

fn cli_path() -> PathBuf {
    std::env::current_exe().expect("current_exe").parent().expect("parent").join("conserve-cli")
}

/// Run the command-line tool with these arguments (plus `-P`: no progress bars). A process that
/// has not finished after the limit is killed and counts as a failed operation (exit -2).
pub fn cli(args: &[&str]) -> CliOut {
    use std::io::Read;
    use std::process::Stdio;
    RUNS.fetch_add(1, Ordering::Relaxed);
    let spawned = Command::new(cli_path())
        .arg("-P")
        .args(args)
        .env("RUST_BACKTRACE", "0")
        .stdin(Stdio::null())
        .stdout(Stdio::piped())
        .stderr(Stdio::piped())
        .spawn();
    let mut child = match spawned {
        Ok(c) => c,
        Err(e) => {
            eprintln!("vh: cannot run {}: {e} (machinery error)", cli_path().display());
            std::process::exit(3);
        }
    };
    // read both pipes on helper threads so that a chatty process cannot block on a full pipe
    let mut so = child.stdout.take().unwrap();
    let mut se = child.stderr.take().unwrap();
    let t1 = std::thread::spawn(move || {
        let mut b = Vec::new();
        let _ = so.read_to_end(&mut b);
        b
    });
    let t2 = std::thread::spawn(move || {
        let mut b = Vec::new();
        let _ = se.read_to_end(&mut b);
        b
    });
    let start = std::time::Instant::now();
    let code = loop {
        match child.try_wait() {
            Ok(Some(st)) => break st.code().unwrap_or(-1),
            Ok(None) => {
                if start.elapsed().as_secs() > 120 {
                    let _ = child.kill();
                    let _ = child.wait();
                    break -2;
                }
                std::thread::sleep(std::time::Duration::from_millis(2));
            }
            Err(_) => break -1,
        }
    };
    CliOut {
        code,
        stdout: String::from_utf8_lossy(&t1.join().unwrap_or_default()).into_owned(),
        stderr: String::from_utf8_lossy(&t2.join().unwrap_or_default()).into_owned(),
    }
}

fn s(p: &Path) -> &str {
    p.to_str().expect("utf-8 path")
}

fn new_archive(scratch: &Scratch, tag: &str) -> PathBuf {
    let a = scratch.fresh(tag);
    let o = cli(&["init", s(&a)]);
    assert!(o.ok(), "conserve init failed: {}", o.brief());
    a
}

fn backup(arch: &Path, t: &Tree, scratch: &Scratch, extra: &[&str]) -> (CliOut, PathBuf) {
    let src = scratch.fresh("clisrc");
    tree::materialize(t, &src);
    let mut args = vec!["backup", "--no-stats"];
    args.extend_from_slice(extra);
    args.push(s(arch));
    args.push(s(&src));
    (cli(&args), src)
}

fn ls_paths(arch: &Path, extra: &[&str]) -> (CliOut, Vec<String>) {
    let mut args = vec!["ls", "--json"];
    args.extend_from_slice(extra);
    args.push(s(arch));
    let o = cli(&args);
    let paths = o
        .stdout
        .lines()
        .filter_map(|l| serde_json::from_str::<Value>(l).ok())
        .filter_map(|v| v["apath"].as_str().map(|x| x.to_string()))
        .collect();
    (o, paths)
}

fn sigil_lines(out: &str) -> Vec<(String, char)> {
    out.lines()
        .filter_map(|l| {
            let mut c = l.chars();
            let sig = c.next()?;
            if c.next()? != ' ' || !"+-*.".contains(sig) {
                return None;
            }
            let rest: String = c.collect();
            rest.starts_with('/').then_some((rest, sig))
        })
        .collect()
}

fn vio(out: &mut Vec<(Violation, Value)>, prop: &str, sig: &str, what: String) {
    out.push((Violation::new(format!("{prop}:command-line:{sig}"), what), json!({"kind": "cli", "property": prop})));
}

fn some_trees() -> Vec<(&'static str, Tree)> {
    let mut exotic = empty_tree();
    for (i, n) in ["a b", "-x", "é", "a\\b", "\"q\"", "..a"].iter().enumerate() {
        exotic.insert(n.to_string(), Node::file(format!("x{i}").as_bytes(), T0 + 600 + i as i64));
    }
    exotic.insert("d".into(), Node::dir(T0 + 610).with_mode(0o2750));
    exotic.insert("d/s".into(), Node::symlink("../a b", T0 + 611));
    exotic.insert("d/old".into(), Node::file(b"pre-epoch", T0).with_mtime(-2, 500_000_000).with_mode(0o4755).with_owner(1, 2));
    vec![
        ("T1", common::tree_t1()),
        ("T2", common::tree_t2()),
        ("T3", common::tree_t3()),
        ("dups", common::tree_dups()),
        ("exotic", exotic),
    ]
}

/// C01: `backup` then `restore` through the command line reproduces the tree.
pub fn c01(scratch: &Scratch) -> Vec<(Violation, Value)> {
    let mut out = Vec::new();
    for (name, t) in some_trees() {
        let arch = new_archive(scratch, "a");
        let (b, _) = backup(&arch, &t, scratch, &[]);
        if !b.ok() {
            vio(&mut out, "C01", "backup-fails", format!("tree {name}: {}", b.brief()));
            continue;
        }
        for sel in [vec![], vec!["-b", "b0"]] {
            let dest = scratch.fresh("dest");
            let mut args = vec!["restore", "--no-stats"];
            args.extend(sel.iter());
            args.push(s(&arch));
            args.push(s(&dest));
            let r = cli(&args);
            let got = tree::observe(&dest).unwrap_or_default();
            let diffs = tree::tree_diff(&t, &got, Cmp::FULL);
            if !r.ok() || !diffs.is_empty() {
                vio(&mut out, "C01", "restore-differs", format!("tree {name} restore {sel:?}: {} {diffs:?}", r.brief()));
            }
            let _ = std::fs::remove_dir_all(&dest);
        }
    }
    out
}

/// C05: `delete` (with and without `--dry-run`) and `gc` through the command line.
pub fn c05(scratch: &Scratch) -> Vec<(Violation, Value)> {
    let mut out = Vec::new();
    let trees = [common::tree_t1(), common::tree_t2(), common::tree_t3()];
    let build = |scratch: &Scratch| -> PathBuf {
        let arch = new_archive(scratch, "a");
        for t in &trees {
            let (b, _) = backup(&arch, t, scratch, &[]);
            assert!(b.ok(), "backup for the delete scenario failed: {}", b.brief());
        }
        arch
    };
    let subsets: [&[u32]; 6] = [&[0], &[1], &[2], &[0, 1], &[0, 2], &[0, 1, 2]];
    for sub in subsets {
        let ids = sub.iter().map(|b| format!("b{b}")).collect::<Vec<_>>().join(",");
        // dry run
        let arch = build(scratch);
        let before = Snap::load(&arch);
        let d = cli(&["delete", "--dry-run", "--no-stats", "-b", &ids, s(&arch)]);
        if !d.ok() || Snap::load(&arch) != before {
            vio(&mut out, "C05", "dry-run-changed-archive", format!("delete --dry-run -b {ids}: {}", d.brief()));
        }
        // for real
        let d = cli(&["delete", "--no-stats", "-b", &ids, s(&arch)]);
        let after = Snap::load(&arch);
        let want: Vec<u32> = (0..3).filter(|b| !sub.contains(b)).collect();
        if !d.ok() || after.band_ids() != want {
            vio(&mut out, "C05", "wrong-versions-after-delete", format!("delete -b {ids}: {} leaves {:?}, expected {want:?}", d.brief(), after.band_ids()));
            continue;
        }
        for b in &want {
            let diffs = common::restore_exact(&arch, *b, &trees[*b as usize], scratch, Cmp::FULL);
            if !diffs.is_empty() {
                vio(&mut out, "C05", "kept-version-no-longer-restores", format!("delete -b {ids}: b{b:04}: {diffs:?}"));
            }
        }
        let referenced = common::referenced(&after, &want);
        let garbage = after.block_files().into_iter().filter(|(n, _)| !referenced.contains(n)).count();
        let problems = common::ref_scan(&after, &want);
        if garbage > 0 || !problems.is_empty() || after.files.contains_key("GC_LOCK") {
            vio(&mut out, "C05", "blocks-wrong-after-delete", format!("delete -b {ids}: {garbage} unreferenced blocks left, lock left: {}, {problems:?}", after.files.contains_key("GC_LOCK")));
        }
    }
    // gc: a version removed behind the tool's back leaves garbage
    let arch = build(scratch);
    std::fs::remove_dir_all(arch.join("b0001")).unwrap();
    let before = Snap::load(&arch);
    let g = cli(&["gc", "--dry-run", "--no-stats", s(&arch)]);
    if !g.ok() || Snap::load(&arch) != before {
        vio(&mut out, "C05", "dry-run-changed-archive", format!("gc --dry-run: {}", g.brief()));
    }
    let g = cli(&["gc", "--no-stats", s(&arch)]);
    let after = Snap::load(&arch);
    let referenced = common::referenced(&after, &[0, 2]);
    let garbage = after.block_files().into_iter().filter(|(n, _)| !referenced.contains(n)).count();
    if !g.ok() || garbage > 0 || !common::ref_scan(&after, &[0, 2]).is_empty() {
        vio(&mut out, "C05", "blocks-wrong-after-gc", format!("gc: {} {garbage} unreferenced blocks left", g.brief()));
    }
    for b in [0u32, 2] {
        let diffs = common::restore_exact(&arch, b, &trees[b as usize], scratch, Cmp::FULL);
        if !diffs.is_empty() {
            vio(&mut out, "C05", "kept-version-no-longer-restores", format!("gc: b{b:04}: {diffs:?}"));
        }
    }
    out
}

/// Run the tool under a file-size limit of `kib` KiB with SIGXFSZ ignored, so that a write that
/// would grow a file beyond the limit fails part way with a real EFBIG from the operating system
/// (below the transport seam where the other fault sweeps inject their errors).
pub fn cli_limited(kib: u64, args: &[&str]) -> CliOut {
    let quoted: Vec<String> = std::iter::once(s(&cli_path()).to_string())
        .chain(std::iter::once("-P".to_string()))
        .chain(args.iter().map(|a| a.to_string()))
        .map(|a| format!("'{}'", a.replace('\'', "'\\''")))
        .collect();
    let script = format!("trap '' XFSZ; ulimit -f {kib}; exec {}", quoted.join(" "));
    RUNS.fetch_add(1, Ordering::Relaxed);
    match Command::new("bash").arg("-c").arg(&script).env("RUST_BACKTRACE", "0").output() {
        Ok(o) => CliOut {
            code: o.status.code().unwrap_or(-1),
            stdout: String::from_utf8_lossy(&o.stdout).into_owned(),
            stderr: String::from_utf8_lossy(&o.stderr).into_owned(),
        },
        Err(e) => {
            eprintln!("vh: cannot run bash: {e} (machinery error)");
            std::process::exit(3);
        }
    }
}

/// C04 with real write failures: a backup during which every write beyond a size limit fails part
/// way (the file exists and holds the first bytes when the error comes back). Whatever that
/// backup recorded must match the source, earlier versions are untouched, it must not claim
/// success, and a later backup without the limit must complete and restore exactly - also when
/// the failing write was completing the zero-length leftover of an earlier killed write.
pub fn c04(scratch: &Scratch) -> Vec<(Violation, Value)> {
    let mut out = Vec::new();
    let t0 = common::tree_t1();
    let mut t = common::tree_t1();
    t.insert("m".into(), Node::file(&common::incompressible(300_000, 7), T0 + 950));
    t.insert("n".into(), Node::file(&common::incompressible(70_000, 8), T0 + 951));
    t.insert("zsmall".into(), Node::file(b"after the big ones", T0 + 952));
    // where the blocks of the new files will go (from a reference backup into another archive)
    let reference = new_archive(scratch, "ref");
    let (b, _) = backup(&reference, &t0, scratch, &[]);
    assert!(b.ok(), "reference backup failed: {}", b.brief());
    let ref0 = Snap::load(&reference);
    let (b, _) = backup(&reference, &t, scratch, &[]);
    assert!(b.ok(), "reference backup failed: {}", b.brief());
    let ref_snap = Snap::load(&reference);
    let big_blocks: Vec<String> = ref_snap
        .block_files()
        .into_iter()
        .filter(|(_, p)| !ref0.files.contains_key(p) && ref_snap.files[p].len() > 65_536)
        .map(|(_, p)| p)
        .collect();
    assert!(!big_blocks.is_empty(), "the second reference backup wrote no block above 64 KiB");
    for limit in [0u64, 1, 64] {
        for leftover in [false, true] {
            if leftover && (limit != 64 || big_blocks.is_empty()) {
                continue;
            }
            let arch = new_archive(scratch, "a");
            let (b0, _) = backup(&arch, &t0, scratch, &[]);
            assert!(b0.ok(), "first backup failed: {}", b0.brief());
            if leftover {
                for p in &big_blocks {
                    std::fs::create_dir_all(arch.join(p).parent().unwrap()).unwrap();
                    std::fs::write(arch.join(p), b"").unwrap();
                }
            }
            let before = Snap::load(&arch);
            let src = scratch.fresh("clisrc");
            tree::materialize(&t, &src);
            let lb = cli_limited(limit, &["backup", "--no-stats", s(&arch), s(&src)]);
            let after = Snap::load(&arch);
            let at = format!("backup with every write beyond {limit} KiB failing part way{}: {}", if leftover { ", completing zero-length leftovers of the big blocks" } else { "" }, lb.brief());
            if lb.ok() {
                vio(&mut out, "C04", "success-claimed-although-writes-failed", at.clone());
            }
            for (f, bytes) in &before.files {
                if !bytes.is_empty() && after.files.get(f) != Some(bytes) {
                    vio(&mut out, "C04", "earlier-file-changed", format!("{at}: {f}"));
                    break;
                }
            }
            for b in after.band_ids() {
                let src_tree = if b == 0 { &t0 } else { &t };
                for e in after.band_entries(b) {
                    if let Some(n) = common::node_for(src_tree, &e.apath) {
                        if let Err(why) = common::entry_matches_node(&after, &e, n) {
                            vio(&mut out, "C04", "wrong-content-or-dangling-reference-recorded", format!("{at}: b{b:04} {}: {why}", e.apath));
                        }
                    }
                }
            }
            // and afterwards, with the limit gone
            let fb = cli(&["backup", "--no-stats", s(&arch), s(&src)]);
            let after2 = Snap::load(&arch);
            // (its exit status may tell of debris the failed run left, such as a version directory
            // without a head; what counts is a new complete version that restores exactly)
            let newest = after2.band_ids().into_iter().max().unwrap_or(0);
            let is_new = !after.band_ids().contains(&newest) || !after.has_tail_file(newest);
            if !is_new || !after2.has_tail_file(newest) {
                vio(&mut out, "C04", "later-backup-fails", format!("{at}; later backup without the limit made no new complete version: {}", fb.brief()));
            } else {
                let diffs = common::restore_exact(&arch, newest, &t, scratch, Cmp::FULL);
                if !diffs.is_empty() {
                    vio(&mut out, "C04", "later-backup-does-not-restore", format!("{at}; later backup without the limit ({}) made b{newest:04}, which does not restore: {diffs:?}", fb.brief()));
                }
            }
            let diffs = common::restore_exact(&arch, 0, &t0, scratch, Cmp::FULL);
            if !diffs.is_empty() {
                vio(&mut out, "C04", "earlier-version-no-longer-restores", format!("{at}: b0000: {diffs:?}"));
            }
            let _ = std::fs::remove_dir_all(&arch);
        }
    }
    out
}

/// C09: `validate` is silent (exit 0) on healthy archives and fails on damage.
pub fn c09(scratch: &Scratch) -> Vec<(Violation, Value)> {
    let mut out = Vec::new();
    let arch = new_archive(scratch, "a");
    for t in [common::tree_t1(), common::tree_t2()] {
        let (b, _) = backup(&arch, &t, scratch, &[]);
        assert!(b.ok(), "backup for the validate scenario failed: {}", b.brief());
    }
    let healthy = Snap::load(&arch);
    for q in [false, true] {
        let mut args = vec!["validate", "--no-stats"];
        if q {
            args.push("-q");
        }
        args.push(s(&arch));
        let v = cli(&args);
        if !v.ok() {
            vio(&mut out, "C09", "validate-fails-on-healthy-archive", format!("validate quick={q}: {}", v.brief()));
        }
    }
    // every block and every index hunk in turn: deleted (quick and full must fail), truncated to
    // half and one bit flipped (full must fail)
    let mut files: Vec<String> = healthy.block_files().into_iter().map(|(_, p)| p).collect();
    for b in healthy.band_ids() {
        files.extend(healthy.hunk_files(b).into_iter().map(|(_, p)| p));
    }
    for f in files {
        for dmg in ["delete", "half", "flip"] {
            let a2 = scratch.fresh("dmg");
            healthy.store(&a2);
            let p = a2.join(&f);
            let bytes = std::fs::read(&p).unwrap();
            match dmg {
                "delete" => std::fs::remove_file(&p).unwrap(),
                "half" => std::fs::write(&p, &bytes[..bytes.len() / 2]).unwrap(),
                _ => {
                    let mut b = bytes.clone();
                    let i = b.len() / 2;
                    b[i] ^= 0x10;
                    std::fs::write(&p, b).unwrap();
                }
            }
            // does some version restore differently now? (by the library route, checked by C09 itself)
            let harmed = healthy.band_ids().iter().any(|b| {
                let t = if *b == 0 { common::tree_t1() } else { common::tree_t2() };
                !common::restore_exact(&a2, *b, &t, scratch, Cmp::FULL).is_empty()
            });
            if harmed {
                let modes: &[bool] = if dmg == "delete" { &[false, true] } else { &[false] };
                for q in modes {
                    let mut args = vec!["validate", "--no-stats"];
                    if *q {
                        args.push("-q");
                    }
                    args.push(s(&a2));
                    let v = cli(&args);
                    if v.ok() {
                        vio(&mut out, "C09", "validate-succeeds-on-damaged-archive", format!("{dmg} of {f}: a version no longer restores, yet validate quick={q} exits 0"));
                    }
                }
            }
            let _ = std::fs::remove_dir_all(&a2);
        }
    }
    out
}

/// C12: `restore --only S` equals the full restore restricted to S.
pub fn c12(scratch: &Scratch) -> Vec<(Violation, Value)> {
    let mut out = Vec::new();
    let mut t = empty_tree();
    // (names with leading dots, dashes and spaces: whatever the argument parser might "tidy")
    for (i, d) in ["a", "ab", "a.b", "é", "éx", ".a", "..b", "-a", " a", "a "].iter().enumerate() {
        t.insert(d.to_string(), Node::dir(T0 + 700 + i as i64).with_mode(0o750));
        t.insert(format!("{d}/f"), Node::file(format!("in {d}").as_bytes(), T0 + 710 + i as i64));
        t.insert(format!("{d}/sub"), Node::dir(T0 + 720 + i as i64));
        t.insert(format!("{d}/sub/g"), Node::file(b"deep", T0 + 730 + i as i64));
    }
    t.insert("a/.a".into(), Node::dir(T0 + 742));
    t.insert("a/.a/inner".into(), Node::file(b"i", T0 + 743));
    t.insert("a/é".into(), Node::dir(T0 + 740));
    t.insert("a/é/h".into(), Node::file(b"h", T0 + 741));
    let arch = new_archive(scratch, "a");
    let (b, _) = backup(&arch, &t, scratch, &[]);
    if !b.ok() {
        vio(&mut out, "C12", "backup-fails", b.brief());
        return out;
    }
    let dirs: Vec<String> = t.iter().filter(|(k, n)| n.is_dir() && !k.is_empty()).map(|(k, _)| k.clone()).collect();
    for k in dirs {
        let sub = tree::apath_of(&k);
        let dest = scratch.fresh("dest");
        let only = format!("--only={sub}");
        let r = cli(&["restore", "--no-stats", &only, s(&arch), s(&dest)]);
        let got = tree::observe(&dest).unwrap_or_default();
        let under = |p: &str| p == k || p.starts_with(&format!("{k}/"));
        let expect: Tree = t.iter().filter(|(p, _)| under(p)).map(|(p, n)| (p.clone(), n.clone())).collect();
        let got_sub: Tree = got.iter().filter(|(p, _)| under(p)).map(|(p, n)| (p.clone(), n.clone())).collect();
        let mut diffs = tree::tree_diff(&expect, &got_sub, Cmp::FULL);
        for p in got.keys() {
            if !under(p) && !(p.is_empty() || k.starts_with(&format!("{p}/"))) {
                diffs.push(format!("restored /{p} which is outside the subtree"));
            }
        }
        if !r.ok() || !diffs.is_empty() {
            vio(&mut out, "C12", "restore-only-differs-from-full-restore", format!("restore --only {sub}: {} {diffs:?}", r.brief()));
        }
        let _ = std::fs::remove_dir_all(&dest);
    }
    out
}

/// C15: `-e` / `-E` mean the same for `backup`, `ls` and `restore`, and follow the ancestor rule.
pub fn c15(scratch: &Scratch, omitted: &dyn Fn(&[String], &str) -> bool, patterns: &[&str]) -> Vec<(Violation, Value)> {
    let mut out = Vec::new();
    let mut t = empty_tree();
    for (i, n) in ["a", "ab", "b", "é", "a.txt"].iter().enumerate() {
        if i % 2 == 0 {
            t.insert(n.to_string(), Node::dir(T0 + 800 + i as i64));
            for (j, m) in ["a", "b", "a.txt", "é"].iter().enumerate() {
                t.insert(format!("{n}/{m}"), Node::file(b"x", T0 + 810 + j as i64));
            }
            t.insert(format!("{n}/a.lnk"), Node::symlink("a", T0 + 822));
            t.insert(format!("{n}/ab"), Node::dir(T0 + 820));
            t.insert(format!("{n}/ab/b"), Node::file(b"y", T0 + 821));
        } else {
            if i == 1 {
                t.insert(n.to_string(), Node::symlink("a", T0 + 830 + i as i64));
            } else {
                t.insert(n.to_string(), Node::file(b"z", T0 + 830 + i as i64));
            }
        }
    }
    let full = new_archive(scratch, "full");
    let (b, src) = backup(&full, &t, scratch, &[]);
    if !b.ok() {
        vio(&mut out, "C15", "backup-fails", b.brief());
        return out;
    }
    let mut sets: Vec<Vec<String>> = patterns.iter().map(|p| vec![p.to_string()]).collect();
    for w in patterns.windows(2).step_by(2) {
        sets.push(vec![w[0].to_string(), w[1].to_string()]);
    }
    for set in sets {
        let oracle: BTreeSet<String> = t.keys().filter(|k| !k.is_empty() && !omitted(&set, k)).map(|k| tree::apath_of(k)).collect();
        for through_file in [false, true] {
            let pf = scratch.fresh("patterns");
            let mut flags: Vec<String> = Vec::new();
            if through_file {
                std::fs::write(&pf, format!("{}\n", set.join("\n\n"))).unwrap();
                flags.push("-E".into());
                flags.push(s(&pf).to_string());
            } else {
                for p in &set {
                    flags.push("-e".into());
                    flags.push(p.clone());
                }
            }
            let fl: Vec<&str> = flags.iter().map(|x| x.as_str()).collect();
            // backup with the exclusions
            let a = new_archive(scratch, "ex");
            let mut args = vec!["backup", "--no-stats"];
            args.extend(fl.iter());
            args.push(s(&a));
            args.push(s(&src));
            let bo = cli(&args);
            let stored: BTreeSet<String> = Snap::load(&a).band_entries(0).into_iter().map(|e| e.apath).filter(|p| p != "/").collect();
            // ls of the full backup with the exclusions
            let (lo, listed) = ls_paths(&full, &fl);
            let listed: BTreeSet<String> = listed.into_iter().filter(|p| p != "/").collect();
            // restore of the full backup with the exclusions
            let dest = scratch.fresh("dest");
            let mut args = vec!["restore", "--no-stats"];
            args.extend(fl.iter());
            args.push(s(&full));
            args.push(s(&dest));
            let ro = cli(&args);
            let restored: BTreeSet<String> = tree::observe(&dest).unwrap_or_default().keys().filter(|k| !k.is_empty()).map(|k| tree::apath_of(k)).collect();
            let at = format!("exclude {set:?}{}", if through_file { " given through -E <file>" } else { "" });
            if !bo.ok() || !lo.ok() || !ro.ok() {
                vio(&mut out, "C15", "operation-with-exclusions-fails", format!("{at}: backup {} / ls {} / restore {}", bo.brief(), lo.brief(), ro.brief()));
            }
            for (name, got) in [("backup", &stored), ("ls", &listed), ("restore", &restored)] {
                if *got != oracle {
                    let extra: Vec<&String> = got.difference(&oracle).collect();
                    let missing: Vec<&String> = oracle.difference(got).collect();
                    vio(&mut out, "C15", &format!("{name}-differs-from-the-rule"), format!("{at}: {name} keeps extra {extra:?}, omits {missing:?}"));
                }
            }
            let _ = std::fs::remove_dir_all(&a);
            let _ = std::fs::remove_dir_all(&dest);
        }
    }
    out
}

/// C16: `restore` refuses a non-empty destination unless told to overwrite, and leaves it alone.
pub fn c16(scratch: &Scratch) -> Vec<(Violation, Value)> {
    let mut out = Vec::new();
    let t = common::tree_t1();
    let arch = new_archive(scratch, "a");
    let (b, _) = backup(&arch, &t, scratch, &[]);
    if !b.ok() {
        vio(&mut out, "C16", "backup-fails", b.brief());
        return out;
    }
    let mut pre = empty_tree();
    pre.insert("precious".into(), Node::file(b"do not touch", T0 + 900).with_mode(0o600));
    // a file of the version is in the way, too
    if let Some(k) = t.iter().find(|(k, n)| n.is_file() && !k.contains('/')).map(|(k, _)| k.clone()) {
        pre.insert(k, Node::file(b"older local edit", T0 + 901));
    }
    let dest = scratch.fresh("dest");
    tree::materialize(&pre, &dest);
    let before = tree::observe(&dest).unwrap();
    let r = cli(&["restore", "--no-stats", s(&arch), s(&dest)]);
    let after = tree::observe(&dest).unwrap_or_default();
    if r.ok() {
        vio(&mut out, "C16", "non-empty-destination-not-refused", format!("restore into a non-empty directory: {}", r.brief()));
    }
    let diffs = tree::tree_diff(&before, &after, Cmp::FULL);
    if !diffs.is_empty() {
        vio(&mut out, "C16", "non-empty-destination-modified", format!("restore into a non-empty directory without --force-overwrite: {diffs:?}"));
    }
    let r = cli(&["restore", "--no-stats", "--force-overwrite", s(&arch), s(&dest)]);
    let after = tree::observe(&dest).unwrap_or_default();
    let mut expect = t.clone();
    expect.insert("precious".into(), pre["precious"].clone());
    let cmp = Cmp { root_meta: false, ..Cmp::FULL };
    let diffs = tree::tree_diff(&expect, &after, cmp);
    if !r.ok() || !diffs.is_empty() {
        vio(&mut out, "C16", "overwrite-restore-differs", format!("restore --force-overwrite: {} {diffs:?}", r.brief()));
    }
    out
}

/// C18: `diff` and `backup -v` lines against the difference of the tree models.
pub fn c18(scratch: &Scratch, cases: &[(Tree, Tree, Vec<(String, char)>, Vec<(String, char)>, Vec<(String, char)>)]) -> Vec<(Violation, Value)> {
    let mut out = Vec::new();
    for (i, (base, new, want, want_all, want_cb)) in cases.iter().enumerate() {
        let arch = new_archive(scratch, "a");
        let (b, src) = backup(&arch, base, scratch, &[]);
        if !b.ok() {
            vio(&mut out, "C18", "backup-fails", b.brief());
            continue;
        }
        let d0 = cli(&["diff", s(&arch), s(&src)]);
        if !d0.ok() || !sigil_lines(&d0.stdout).is_empty() {
            vio(&mut out, "C18", "diff-of-unmodified-tree-reports-change", format!("case {i}: {} {:?}", d0.brief(), sigil_lines(&d0.stdout)));
        }
        let src2 = scratch.fresh("src2");
        tree::materialize(new, &src2);
        let d = cli(&["diff", s(&arch), s(&src2)]);
        if !d.ok() || sigil_lines(&d.stdout) != *want {
            vio(&mut out, "C18", "diff-differs-from-the-real-difference", format!("case {i}: {} gives {:?}, the trees differ as {want:?}", d.brief(), sigil_lines(&d.stdout)));
        }
        let d = cli(&["diff", "--include-unchanged", s(&arch), s(&src2)]);
        if !d.ok() || sigil_lines(&d.stdout) != *want_all {
            vio(&mut out, "C18", "diff-differs-from-the-real-difference", format!("case {i} --include-unchanged: {} gives {:?}, expected {want_all:?}", d.brief(), sigil_lines(&d.stdout)));
        }
        let b2 = cli(&["backup", "-v", "--no-stats", s(&arch), s(&src2)]);
        let mut got: Vec<(String, char)> = sigil_lines(&b2.stdout).into_iter().filter(|(p, _)| want_cb.iter().any(|(q, _)| q == p) || new.get(&p[1..]).is_some_and(|n| n.is_file()) || base.get(&p[1..]).is_some_and(|n| n.is_file())).collect();
        got.retain(|(p, sg)| match sg {
            '+' | '*' => new.get(&p[1..]).is_some_and(|n| n.is_file()),
            '-' => base.get(&p[1..]).is_some_and(|n| n.is_file()),
            _ => false,
        });
        got.sort_by(|a, b| apath_cmp(&a.0, &b.0));
        if !b2.ok() || got != *want_cb {
            vio(&mut out, "C18", "backup-change-report-differs", format!("case {i}: backup -v {} prints {got:?}, the trees differ (files) as {want_cb:?}", b2.brief()));
        }
    }
    out
}

/// C08: `ls -b N` of archives written by the independent writer follows the stitching rule.
pub fn c08(scratch: &Scratch, archives: &[(String, PathBuf)]) -> Vec<(Violation, Value)> {
    let mut out = Vec::new();
    for (desc, dir) in archives {
        let snap = Snap::load(dir);
        for b in snap.band_ids() {
            if !snap.has_head(b) {
                continue;
            }
            let expect: Vec<String> = ref_stitch(&snap, b).into_iter().map(|(e, _)| e.apath).collect();
            let (o, got) = ls_paths(dir, &["-b", &format!("b{b}")]);
            if got != expect {
                vio(&mut out, "C08", "ls-differs-from-stitching-rule", format!("{desc}: ls -b b{b} ({}) gives {got:?}, the stitching rule gives {expect:?}", o.brief()));
            }
            let _ = apath_under;
        }
    }
    let _ = scratch;
    out
}

pub fn report_all(report: &Report, v: Vec<(Violation, Value)>) {
    for (x, c) in &v {
        report.violation(x, c);
    }
    report.set("command_line_runs", json!(RUNS.load(Ordering::Relaxed)));
}
