//! The boring reference model of a file tree, with `materialize` and `observe`.

use std::collections::BTreeMap;
use std::ffi::CString;
use std::os::unix::ffi::OsStrExt;
use std::os::unix::fs::{MetadataExt, PermissionsExt};
use std::path::Path;

use crate::util::show_bytes;

#[derive(Clone, Debug, PartialEq, Eq, Hash, PartialOrd, Ord)]
pub enum NodeKind {
    Dir,
    File(Vec<u8>),
    Symlink(String),
}

#[derive(Clone, Debug, PartialEq, Eq, Hash, PartialOrd, Ord)]
pub struct Node {
    pub kind: NodeKind,
    /// Permission bits 0o7777 (ignored for symlinks).
    pub mode: u32,
    pub mtime: (i64, u32),
    pub uid: u32,
    pub gid: u32,
}

impl Node {
    pub fn dir(mtime: i64) -> Node {
        Node {
            kind: NodeKind::Dir,
            mode: 0o755,
            mtime: (mtime, 0),
            uid: 0,
            gid: 0,
        }
    }
    pub fn file(content: &[u8], mtime: i64) -> Node {
        Node {
            kind: NodeKind::File(content.to_vec()),
            mode: 0o644,
            mtime: (mtime, 0),
            uid: 0,
            gid: 0,
        }
    }
    pub fn symlink(target: &str, mtime: i64) -> Node {
        Node {
            kind: NodeKind::Symlink(target.to_string()),
            mode: 0o777,
            mtime: (mtime, 0),
            uid: 0,
            gid: 0,
        }
    }
    pub fn with_mode(mut self, mode: u32) -> Node {
        self.mode = mode;
        self
    }
    pub fn with_mtime(mut self, s: i64, ns: u32) -> Node {
        self.mtime = (s, ns);
        self
    }
    pub fn with_owner(mut self, uid: u32, gid: u32) -> Node {
        self.uid = uid;
        self.gid = gid;
        self
    }
    pub fn is_dir(&self) -> bool {
        matches!(self.kind, NodeKind::Dir)
    }
    pub fn is_file(&self) -> bool {
        matches!(self.kind, NodeKind::File(_))
    }
    pub fn kind_name(&self) -> &'static str {
        match self.kind {
            NodeKind::Dir => "Dir",
            NodeKind::File(_) => "File",
            NodeKind::Symlink(_) => "Symlink",
        }
    }
    pub fn describe(&self) -> String {
        let k = match &self.kind {
            NodeKind::Dir => "dir".to_string(),
            NodeKind::File(b) => format!("file {}", show_bytes(b)),
            NodeKind::Symlink(t) => format!("link->{t:?}"),
        };
        format!(
            "{k} mode={:o} mtime={}.{:09} uid={} gid={}",
            self.mode, self.mtime.0, self.mtime.1, self.uid, self.gid
        )
    }
}

/// Keys are paths relative to the tree root without a leading slash; `""` is the root directory.
pub type Tree = BTreeMap<String, Node>;

pub const T0: i64 = 1_600_000_000;

/// A tree holding just a root directory.
pub fn empty_tree() -> Tree {
    let mut t = Tree::new();
    t.insert(String::new(), Node::dir(T0));
    t
}

pub fn apath_of(key: &str) -> String {
    format!("/{key}")
}

pub fn parent_of(key: &str) -> Option<&str> {
    if key.is_empty() {
        None
    } else {
        Some(key.rsplit_once('/').map(|(p, _)| p).unwrap_or(""))
    }
}

fn cpath(p: &Path) -> CString {
    CString::new(p.as_os_str().as_bytes()).unwrap()
}

fn lutimes(p: &Path, mtime: (i64, u32)) -> std::io::Result<()> {
    let ts = [
        libc::timespec {
            tv_sec: mtime.0,
            tv_nsec: mtime.1 as i64,
        },
        libc::timespec {
            tv_sec: mtime.0,
            tv_nsec: mtime.1 as i64,
        },
    ];
    let c = cpath(p);
    let r = unsafe {
        libc::utimensat(
            libc::AT_FDCWD,
            c.as_ptr(),
            ts.as_ptr(),
            libc::AT_SYMLINK_NOFOLLOW,
        )
    };
    if r == 0 {
        Ok(())
    } else {
        Err(std::io::Error::last_os_error())
    }
}

fn lchown(p: &Path, uid: u32, gid: u32) -> std::io::Result<()> {
    let c = cpath(p);
    let r = unsafe { libc::lchown(c.as_ptr(), uid, gid) };
    if r == 0 {
        Ok(())
    } else {
        Err(std::io::Error::last_os_error())
    }
}

/// Create `tree` below `root` (which is created; it must not exist or be empty).
pub fn materialize(tree: &Tree, root: &Path) {
    std::fs::create_dir_all(root).expect("mk root");
    // Pass 1: create everything, parents first (a key sorts before the keys it prefixes).
    for (key, node) in tree {
        let p = root.join(key);
        match &node.kind {
            NodeKind::Dir => {
                if !key.is_empty() {
                    std::fs::create_dir(&p).unwrap_or_else(|e| panic!("mkdir {p:?}: {e}"));
                }
            }
            NodeKind::File(b) => {
                std::fs::write(&p, b).unwrap_or_else(|e| panic!("write {p:?}: {e}"));
            }
            NodeKind::Symlink(t) => {
                std::os::unix::fs::symlink(t, &p).unwrap_or_else(|e| panic!("symlink {p:?}: {e}"));
            }
        }
    }
    // Pass 2: metadata of non-directories, then directories deepest first.
    for (key, node) in tree {
        let p = root.join(key);
        match &node.kind {
            NodeKind::Dir => {}
            NodeKind::File(_) => {
                lchown(&p, node.uid, node.gid).expect("chown file");
                std::fs::set_permissions(&p, std::fs::Permissions::from_mode(node.mode))
                    .expect("chmod file");
                lutimes(&p, node.mtime).expect("utimes file");
            }
            NodeKind::Symlink(_) => {
                lchown(&p, node.uid, node.gid).expect("lchown link");
                lutimes(&p, node.mtime).expect("lutimes link");
            }
        }
    }
    for (key, node) in tree.iter().rev() {
        if node.is_dir() {
            let p = root.join(key);
            lchown(&p, node.uid, node.gid).expect("chown dir");
            std::fs::set_permissions(&p, std::fs::Permissions::from_mode(node.mode))
                .expect("chmod dir");
            lutimes(&p, node.mtime).expect("utimes dir");
        }
    }
}

/// Read back what is below `root` with lstat / readlink / read.
pub fn observe(root: &Path) -> Result<Tree, String> {
    let mut t = Tree::new();
    observe_into(root, "", &mut t)?;
    Ok(t)
}

fn observe_into(root: &Path, key: &str, t: &mut Tree) -> Result<(), String> {
    let p = if key.is_empty() {
        root.to_path_buf()
    } else {
        root.join(key)
    };
    let md = std::fs::symlink_metadata(&p).map_err(|e| format!("lstat {p:?}: {e}"))?;
    let ft = md.file_type();
    let kind = if ft.is_dir() {
        NodeKind::Dir
    } else if ft.is_symlink() {
        NodeKind::Symlink(
            std::fs::read_link(&p)
                .map_err(|e| format!("readlink {p:?}: {e}"))?
                .to_string_lossy()
                .into_owned(),
        )
    } else if ft.is_file() {
        NodeKind::File(std::fs::read(&p).map_err(|e| format!("read {p:?}: {e}"))?)
    } else {
        return Err(format!("unexpected file type at {p:?}"));
    };
    let is_link = matches!(kind, NodeKind::Symlink(_));
    let is_dir = matches!(kind, NodeKind::Dir);
    t.insert(
        key.to_string(),
        Node {
            kind,
            mode: if is_link { 0o777 } else { md.mode() & 0o7777 },
            mtime: (md.mtime(), md.mtime_nsec() as u32),
            uid: md.uid(),
            gid: md.gid(),
        },
    );
    if is_dir {
        let mut names = Vec::new();
        for e in std::fs::read_dir(&p).map_err(|e| format!("readdir {p:?}: {e}"))? {
            let e = e.map_err(|e| format!("readdir {p:?}: {e}"))?;
            names.push(e.file_name().to_string_lossy().into_owned());
        }
        names.sort();
        for n in names {
            let ck = if key.is_empty() {
                n
            } else {
                format!("{key}/{n}")
            };
            observe_into(root, &ck, t)?;
        }
    }
    Ok(())
}

/// What to compare between an expected and an observed tree.
#[derive(Clone, Copy, Debug)]
pub struct Cmp {
    pub mtime: bool,
    pub dir_mtime: bool,
    pub mode: bool,
    pub owner: bool,
    pub root_meta: bool,
}

impl Cmp {
    pub const FULL: Cmp = Cmp {
        mtime: true,
        dir_mtime: true,
        mode: true,
        owner: true,
        root_meta: true,
    };
}

/// Differences between trees, as human-readable lines (empty = equal).
pub fn tree_diff(expected: &Tree, got: &Tree, cmp: Cmp) -> Vec<String> {
    let mut out = Vec::new();
    for (k, e) in expected {
        match got.get(k) {
            None => out.push(format!("missing /{k} (expected {})", e.describe())),
            Some(g) => {
                if k.is_empty() && !cmp.root_meta {
                    continue;
                }
                let mut bad = e.kind != g.kind;
                if cmp.mode && !matches!(e.kind, NodeKind::Symlink(_)) && e.mode != g.mode {
                    bad = true;
                }
                if cmp.mtime && (cmp.dir_mtime || !e.is_dir()) && e.mtime != g.mtime {
                    bad = true;
                }
                if cmp.owner && (e.uid != g.uid || e.gid != g.gid) {
                    bad = true;
                }
                if bad {
                    out.push(format!(
                        "differs /{k}: expected {} got {}",
                        e.describe(),
                        g.describe()
                    ));
                }
            }
        }
    }
    for (k, g) in got {
        if !expected.contains_key(k) {
            out.push(format!("unexpected /{k} ({})", g.describe()));
        }
    }
    out
}

/// Restrict a tree to the entries at or below `sub` (a key), keeping the ancestors as well.
pub fn subtree_with_ancestors(t: &Tree, sub: &str) -> Tree {
    t.iter()
        .filter(|(k, _)| {
            k.as_str() == sub
                || k.starts_with(&format!("{sub}/"))
                || sub.is_empty()
                || k.is_empty()
                || sub.starts_with(&format!("{k}/"))
        })
        .map(|(k, v)| (k.clone(), v.clone()))
        .collect()
}

pub fn tree_to_json(t: &Tree) -> serde_json::Value {
    serde_json::Value::Array(
        t.iter()
            .map(|(k, n)| {
                let (kind, data) = match &n.kind {
                    NodeKind::Dir => ("dir", serde_json::Value::Null),
                    NodeKind::File(b) => ("file", serde_json::Value::String(crate::util::hex(b))),
                    NodeKind::Symlink(t) => ("symlink", serde_json::Value::String(t.clone())),
                };
                serde_json::json!({"path": k, "kind": kind, "data": data, "mode": n.mode,
                    "mtime": [n.mtime.0, n.mtime.1], "uid": n.uid, "gid": n.gid})
            })
            .collect(),
    )
}

pub fn tree_from_json(v: &serde_json::Value) -> Option<Tree> {
    let mut t = Tree::new();
    for e in v.as_array()? {
        let path = e["path"].as_str()?.to_string();
        let kind = match e["kind"].as_str()? {
            "dir" => NodeKind::Dir,
            "file" => {
                let h = e["data"].as_str()?;
                let mut b = Vec::new();
                for i in (0..h.len()).step_by(2) {
                    b.push(u8::from_str_radix(&h[i..i + 2], 16).ok()?);
                }
                NodeKind::File(b)
            }
            "symlink" => NodeKind::Symlink(e["data"].as_str()?.to_string()),
            _ => return None,
        };
        t.insert(
            path,
            Node {
                kind,
                mode: e["mode"].as_u64()? as u32,
                mtime: (e["mtime"][0].as_i64()?, e["mtime"][1].as_u64()? as u32),
                uid: e["uid"].as_u64()? as u32,
                gid: e["gid"].as_u64()? as u32,
            },
        );
    }
    Some(t)
}

/// Short description of a tree for samples.
pub fn tree_brief(t: &Tree) -> String {
    t.iter()
        .filter(|(k, _)| !k.is_empty())
        .map(|(k, n)| match &n.kind {
            NodeKind::Dir => format!("/{k}/"),
            NodeKind::File(b) => format!("/{k}[{}]", b.len()),
            NodeKind::Symlink(t) => format!("/{k}->{t}"),
        })
        .collect::<Vec<_>>()
        .join(" ")
}
