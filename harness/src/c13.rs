//! C13: everything written conforms to the documented archive format, judged by the independent
//! reader. `check_snapshot` is also used as a rider by C03 (crash states) and the history engine.

use std::cmp::Ordering;
use std::collections::BTreeMap;

use serde_json::json;

use crate::fmt06::{self, apath_cmp, apath_valid, band_dir, blake2b512_hex, hunk_path, Snap};
use crate::report::{Report, Violation};
use crate::tree::{NodeKind, Tree};
use crate::util::Budget;

/// Check one archive state. `band_src`: tree model of the source of each band (for file sizes),
/// when known. Zero-length files are the documented leftover of a killed write and are skipped
/// ("whatever was written").
pub fn check_snapshot(
    snap: &Snap,
    band_src: Option<&BTreeMap<u32, Tree>>,
    at: &str,
) -> Vec<Violation> {
    let mut v = Vec::new();
    let mut bad = |sig: &str, what: String| {
        v.push(Violation::new(format!("C13:{sig}"), format!("{at}: {what}")));
    };
    // Archive header
    match snap.files.get("CONSERVE") {
        Some(b) => match serde_json::from_slice::<serde_json::Value>(b) {
            Ok(j) if j["conserve_archive_version"] == json!("0.6") => {}
            _ => bad("header", "CONSERVE header is not the documented JSON".into()),
        },
        None => bad("header", "CONSERVE header missing".into()),
    }
    // Nothing but the documented files and directories
    for f in snap.files.keys() {
        let parts: Vec<&str> = f.split('/').collect();
        let hexname = |s: &str| s.len() == 128 && s.bytes().all(|c| c.is_ascii_hexdigit() && !c.is_ascii_uppercase());
        let digits = |s: &str, n: usize| s.len() == n && s.bytes().all(|c| c.is_ascii_digit());
        let known = match parts.as_slice() {
            ["CONSERVE"] | ["GC_LOCK"] => true,
            [b, "BANDHEAD"] | [b, "BANDTAIL"] => fmt06::parse_band_dir(b).is_some(),
            [b, "i", sub, hunk] => fmt06::parse_band_dir(b).is_some() && digits(sub, 5) && digits(hunk, 9),
            ["d", sub, name] => sub.len() == 3 && hexname(name),
            _ => false,
        };
        if !known {
            bad("unexpected-file", format!("{f} is not a file the format documents"));
        }
    }
    for d in &snap.dirs {
        let parts: Vec<&str> = d.split('/').collect();
        let known = match parts.as_slice() {
            ["d"] => true,
            ["d", sub] => sub.len() == 3,
            [b] => fmt06::parse_band_dir(b).is_some(),
            [b, "i"] => fmt06::parse_band_dir(b).is_some(),
            [b, "i", sub] => fmt06::parse_band_dir(b).is_some() && sub.len() == 5,
            _ => false,
        };
        if !known {
            bad("unexpected-directory", format!("{d} is not a directory the format documents"));
        }
    }
    let mut block_len: BTreeMap<String, usize> = BTreeMap::new();
    // Blocks
    for (name, path) in snap.block_files() {
        let bytes = &snap.files[&path];
        if bytes.is_empty() {
            continue;
        }
        let expect_path = Snap::block_path(&name);
        if path != expect_path {
            bad(
                "block-misplaced",
                format!("block file {path} is not under the first three hex digits of its name"),
            );
        }
        match snap::raw::Decoder::new().decompress_vec(bytes) {
            Err(e) => bad("block-undecodable", format!("{path}: {e}")),
            Ok(content) => {
                let h = blake2b512_hex(&content);
                if h != name {
                    bad(
                        "block-hash-mismatch",
                        format!("{path} holds content whose BLAKE2b-512 is {}…", &h[..12]),
                    );
                }
                if content.is_empty() {
                    bad("block-empty-content", format!("{path} holds zero bytes of content"));
                }
                block_len.insert(name.clone(), content.len());
            }
        }
    }
    // Bands
    for b in snap.band_ids() {
        let bd = band_dir(b);
        let head = snap.files.get(&format!("{bd}/BANDHEAD"));
        if let Some(h) = head {
            if !h.is_empty() {
                match serde_json::from_slice::<serde_json::Value>(h) {
                    Ok(j) if j["start_time"].is_i64() && j["band_format_version"].is_string() => {}
                    _ => bad("bandhead", format!("{bd}/BANDHEAD is not the documented JSON")),
                }
            }
        }
        let hunks = snap.hunk_files(b);
        let mut last: Option<String> = None;
        let mut n_nonempty = 0u64;
        for (i, (n, path)) in hunks.iter().enumerate() {
            if *n as usize != i {
                bad(
                    "hunk-numbering",
                    format!("{bd}: hunk numbers are {:?}, not consecutive from zero", hunks.iter().map(|h| h.0).collect::<Vec<_>>()),
                );
                break;
            }
            if *path != hunk_path(b, *n) {
                bad("hunk-path", format!("hunk {n} stored at {path}, expected {}", hunk_path(b, *n)));
            }
            let bytes = &snap.files[path];
            if bytes.is_empty() {
                if i + 1 != hunks.len() {
                    bad("hunk-empty-file-not-last", format!("{path} is zero-length but not the last hunk"));
                }
                continue;
            }
            n_nonempty += 1;
            let entries = match fmt06::decode_hunk(bytes) {
                Ok(e) => e,
                Err(e) => {
                    bad("hunk-undecodable", format!("{path}: {e}"));
                    continue;
                }
            };
            if entries.is_empty() {
                bad("hunk-empty", format!("{path} holds no entries"));
            }
            for e in &entries {
                if !apath_valid(&e.apath) {
                    bad("apath-invalid", format!("{path}: {:?}", e.apath));
                }
                if let Some(l) = &last {
                    if apath_cmp(l, &e.apath) != Ordering::Less {
                        bad(
                            "apath-order",
                            format!("{path}: {:?} does not sort after {:?}", e.apath, l),
                        );
                    }
                }
                last = Some(e.apath.clone());
                match e.kind.as_str() {
                    "File" => {
                        if e.target.is_some() {
                            bad("target-on-non-symlink", format!("{path}: {} has a target", e.apath));
                        }
                        for a in &e.addrs {
                            if a.len == 0 {
                                bad("zero-length-address", format!("{path}: {} has an empty address", e.apath));
                            }
                            match block_len.get(&a.hash) {
                                Some(l) if a.start + a.len <= *l as u64 => {}
                                Some(l) => bad(
                                    "address-outside-block",
                                    format!("{path}: {} uses {}..{} of a block of {l}", e.apath, a.start, a.start + a.len),
                                ),
                                None => bad(
                                    "address-missing-block",
                                    format!("{path}: {} names block {}… which is absent", e.apath, &a.hash[..12.min(a.hash.len())]),
                                ),
                            }
                        }
                        if let Some(src) = band_src.and_then(|m| m.get(&b)) {
                            match src.get(&e.apath[1..]) {
                                Some(n) => {
                                    if let NodeKind::File(content) = &n.kind {
                                        if e.size() != content.len() as u64 {
                                            bad(
                                                "size-mismatch",
                                                format!("{path}: {} addresses sum to {} but the file had {} bytes", e.apath, e.size(), content.len()),
                                            );
                                        }
                                    }
                                }
                                None => {}
                            }
                        }
                    }
                    "Symlink" => {
                        if e.has_addrs_key {
                            bad("addrs-on-non-file", format!("{path}: symlink {} carries addrs", e.apath));
                        }
                        if e.target.is_none() {
                            bad("symlink-without-target", format!("{path}: {}", e.apath));
                        }
                    }
                    "Dir" => {
                        if e.has_addrs_key {
                            bad("addrs-on-non-file", format!("{path}: directory {} carries addrs", e.apath));
                        }
                        if e.target.is_some() {
                            bad("target-on-non-symlink", format!("{path}: directory {} has a target", e.apath));
                        }
                    }
                    other => bad("unknown-kind", format!("{path}: {} has kind {other:?}", e.apath)),
                }
            }
        }
        if let Some(t) = snap.files.get(&format!("{bd}/BANDTAIL")) {
            if !t.is_empty() {
                match serde_json::from_slice::<serde_json::Value>(t) {
                    Ok(j) => {
                        if j["index_hunk_count"].as_u64() != Some(n_nonempty)
                            || n_nonempty as usize != hunks.len()
                        {
                            bad(
                                "tail-hunk-count",
                                format!("{bd}/BANDTAIL states {} hunks, {} present", j["index_hunk_count"], hunks.len()),
                            );
                        }
                        if !j["end_time"].is_i64() {
                            bad("bandtail", format!("{bd}/BANDTAIL has no end_time"));
                        }
                    }
                    Err(_) => bad("bandtail", format!("{bd}/BANDTAIL is not JSON")),
                }
            }
        }
    }
    v
}

/// Backup one input and judge the archive.
pub fn judge_case(t: &Tree, opts: &crate::run::BOpts, tag: &str, scratch: &crate::util::Scratch) -> Vec<Violation> {
    let src = scratch.fresh("src");
    crate::tree::materialize(t, &src);
    let arch = scratch.fresh("a");
    crate::run::do_create_archive(&arch);
    let out = crate::run::do_backup(&arch, &src, opts, crate::run::NOHOOK, crate::run::Flavor::Current);
    if out.panicked.is_some() || out.result.is_none() {
        return Vec::new(); // C01's business
    }
    let snap = Snap::load(&arch);
    let m: BTreeMap<u32, Tree> = [(0u32, t.clone())].into_iter().collect();
    check_snapshot(&snap, Some(&m), tag)
}

pub fn hist_oracle(tr: &crate::hist::Transition) -> Vec<Violation> {
    let mut v = check_snapshot(&tr.child.snap, Some(&tr.child.heads), &tr.at());
    // no operation that ran to its end leaves the gc lock behind
    if tr.child.snap.files.contains_key("GC_LOCK") {
        v.push(Violation::new(
            "C13:gc-lock-left-behind",
            format!("{}: GC_LOCK is still there after the operation returned", tr.at()),
        ));
    }
    v
}

pub fn run(report: &Report, budget: &Budget) {
    let thorough = report.thorough();
    // Crash states of the standard scenarios (between-operation and empty-leftover states)
    let (cdone, ctotal) = crate::c14::run_crash_rider(report, budget, "C13");
    // Archives written while storage operations fail (single faults and outages)
    let (fdone, ftotal) = crate::c04::run_format_rider(report, budget);
    // Every state of the history graph
    let depth = if thorough { 3 } else { 2 };
    let hb = crate::util::sub_budget(if thorough { 500 } else { 15 });
    let st = crate::hist::explore(report, &hb, "C13", depth, thorough, thorough, true, &hist_oracle, None, None);
    crate::hist::write_stats(report, &st, depth);
    // Every archive produced by the C01 sweeps (every option point)
    let f = |c: &crate::c01::Case, t: &Tree, scratch: &crate::util::Scratch| judge_case(t, &c.opts, &c.tag, scratch);
    let (adone, atotal) = crate::c01::for_each_case(report, budget, "C13", &f);
    report.set("input_sweep_archives", json!(adone));
    report.set("states", json!(st.states + adone + cdone + fdone));
    report.set("transitions", json!(st.transitions + adone + cdone + fdone));
    report.set("traces_validated_against_impl", json!(st.executions + adone + cdone + fdone));
    report.set("exhaustive", json!(adone == atotal && cdone == ctotal && fdone == ftotal && st.depth_completed == depth));
    report.set("explanation", json!("every archive state reached (history graph, crash states of the standard scenarios, archives written under every single storage fault and outage, every input of the C01 sweeps under all 24 option points) is read by the independent format-0.6 reader and judged against doc/format.md"));
    report.assume("zero-length files are the documented leftover of a killed write and are not judged");
    report.assume("file sizes are compared with the tree model of the band's source");
}

pub fn replay_hist(case: &serde_json::Value) -> Vec<Violation> {
    crate::hist::replay(case, &hist_oracle, None)
}
