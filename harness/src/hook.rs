//! Interceptors installed at the transport seam: logging, crash-at, fail-at.
//! (The two-actor scheduler lives in e3.rs.)

use std::path::PathBuf;
use std::sync::atomic::{AtomicBool, AtomicUsize, Ordering};
use std::sync::{Arc, Mutex};

use conserve::transport::record::Verb;
use conserve::transport::verif::{Action, Interceptor, Op, Outcome};
use conserve::transport::{ErrorKind, WriteMode};
use conserve::Kind;

use crate::util::h64;

#[derive(Clone, Debug, PartialEq, Eq, Hash)]
pub enum Pre {
    Absent,
    File(u64),
    Dir,
    NotApplicable,
}

#[derive(Clone, Debug, PartialEq, Eq, Hash)]
pub enum Out {
    Unit,
    Bytes { len: usize, hash: u64 },
    Entries(Vec<(String, u8, Option<u64>)>),
    Meta { kind: u8, len: u64 },
    Err(String),
    /// The operation never completed (crash) or its outcome was not delivered.
    None,
}

#[derive(Clone, Debug)]
pub struct OpRec {
    pub idx: usize,
    pub verb: Verb,
    pub path: String,
    pub create_new: Option<bool>,
    pub content: Option<Vec<u8>>,
    pub pre: Pre,
    pub out: Out,
    /// What the plan did to this operation.
    pub injected: Option<String>,
}

impl OpRec {
    pub fn is_mutating(&self) -> bool {
        is_mutating(self.verb)
    }
    pub fn brief(&self) -> String {
        format!(
            "#{} {} {}{}",
            self.idx,
            verb_name(self.verb),
            self.path,
            match &self.injected {
                Some(i) => format!(" [{i}]"),
                None => String::new(),
            }
        )
    }
    pub fn ok(&self) -> bool {
        !matches!(self.out, Out::Err(_) | Out::None)
    }
}

pub fn is_mutating(v: Verb) -> bool {
    matches!(
        v,
        Verb::Write | Verb::CreateDir | Verb::RemoveFile | Verb::RemoveDirAll
    )
}

pub fn verb_name(v: Verb) -> &'static str {
    match v {
        Verb::ListDir => "list_dir",
        Verb::Write => "write",
        Verb::Read => "read",
        Verb::RemoveFile => "remove_file",
        Verb::RemoveDirAll => "remove_dir_all",
        Verb::CreateDir => "create_dir",
        Verb::Metadata => "metadata",
    }
}

pub fn kind_code(k: Kind) -> u8 {
    match k {
        Kind::File => 1,
        Kind::Dir => 2,
        Kind::Symlink => 3,
        Kind::Unknown => 0,
    }
}

pub fn kind_name(k: ErrorKind) -> &'static str {
    match k {
        ErrorKind::NotFound => "NotFound",
        ErrorKind::AlreadyExists => "AlreadyExists",
        ErrorKind::PermissionDenied => "PermissionDenied",
        ErrorKind::Other => "Other",
        _ => "OtherKind",
    }
}

pub fn parse_kind(s: &str) -> ErrorKind {
    match s {
        "NotFound" => ErrorKind::NotFound,
        "AlreadyExists" => ErrorKind::AlreadyExists,
        "PermissionDenied" => ErrorKind::PermissionDenied,
        _ => ErrorKind::Other,
    }
}

pub const FAULT_KINDS: [ErrorKind; 4] = [
    ErrorKind::NotFound,
    ErrorKind::AlreadyExists,
    ErrorKind::PermissionDenied,
    ErrorKind::Other,
];

pub fn record_outcome(o: &Outcome) -> Out {
    match o {
        Outcome::Unit => Out::Unit,
        Outcome::Bytes(b) => Out::Bytes {
            len: b.len(),
            hash: h64(*b),
        },
        Outcome::Entries(es) => {
            let mut v: Vec<(String, u8, Option<u64>)> = es
                .iter()
                .map(|e| (e.name.clone(), kind_code(e.kind), e.len))
                .collect();
            v.sort();
            Out::Entries(v)
        }
        Outcome::Meta { kind, len } => Out::Meta {
            kind: kind_code(*kind),
            len: *len,
        },
        Outcome::Err(k) => Out::Err(kind_name(*k).to_string()),
    }
}

/// What to do to the run.
#[derive(Clone, Debug, Default)]
pub struct Plan {
    /// Stop the world before operation k (index in the full trace). With `leftover`, if that
    /// operation is a write whose target does not exist, first create the target as an empty file.
    pub crash_before: Option<(usize, bool)>,
    /// Fail operation k with the given kind (several allowed).
    pub fail: Vec<(usize, ErrorKind)>,
    /// Fail every operation from index k on with this kind (a storage outage).
    pub fail_from: Option<(usize, ErrorKind)>,
    /// Fail the n-th (0-based) operation with this verb.
    pub fail_nth_verb: Option<(Verb, usize, ErrorKind)>,
    /// Fail every operation with this verb on this path, after sleeping that many milliseconds
    /// (schedule-independent, for replays on multi-thread runtimes where indices vary; the delay
    /// makes the failing operation the last of its siblings to complete).
    pub fail_path: Option<(Verb, String, ErrorKind, u64)>,
}

impl Plan {
    pub fn none() -> Plan {
        Plan::default()
    }
    pub fn crash(k: usize, leftover: bool) -> Plan {
        Plan {
            crash_before: Some((k, leftover)),
            ..Default::default()
        }
    }
    pub fn fail1(k: usize, kind: ErrorKind) -> Plan {
        Plan {
            fail: vec![(k, kind)],
            ..Default::default()
        }
    }
    pub fn describe(&self) -> String {
        let mut s = Vec::new();
        if let Some((k, l)) = self.crash_before {
            s.push(format!(
                "crash before op {k}{}",
                if l { " leaving an empty file" } else { "" }
            ));
        }
        for (k, kind) in &self.fail {
            s.push(format!("fail op {k} with {}", kind_name(*kind)));
        }
        if let Some((k, kind)) = self.fail_from {
            s.push(format!("fail every op from {k} with {}", kind_name(kind)));
        }
        if let Some((verb, n, kind)) = self.fail_nth_verb {
            s.push(format!("fail {} number {n} with {}", verb_name(verb), kind_name(kind)));
        }
        if let Some((verb, path, kind, delay)) = &self.fail_path {
            s.push(format!("fail {} of {path} with {} after {delay} ms", verb_name(*verb), kind_name(*kind)));
        }
        if s.is_empty() {
            "no fault".into()
        } else {
            s.join(", ")
        }
    }
    pub fn to_json(&self) -> serde_json::Value {
        serde_json::json!({
            "crash_before": self.crash_before.map(|(k, l)| serde_json::json!([k, l])),
            "fail": self.fail.iter().map(|(k, kind)| serde_json::json!([k, kind_name(*kind)])).collect::<Vec<_>>(),
            "fail_from": self.fail_from.map(|(k, kind)| serde_json::json!([k, kind_name(kind)])),
        })
    }
    pub fn from_json(v: &serde_json::Value) -> Plan {
        let mut p = Plan::default();
        if let Some(a) = v["crash_before"].as_array() {
            p.crash_before = Some((a[0].as_u64().unwrap() as usize, a[1].as_bool().unwrap()));
        }
        if let Some(a) = v["fail"].as_array() {
            for f in a {
                p.fail.push((
                    f[0].as_u64().unwrap() as usize,
                    parse_kind(f[1].as_str().unwrap()),
                ));
            }
        }
        if let Some(a) = v["fail_from"].as_array() {
            p.fail_from = Some((a[0].as_u64().unwrap() as usize, parse_kind(a[1].as_str().unwrap())));
        }
        p
    }
}

/// Logging interceptor with an optional crash/fault plan.
pub struct Icpt {
    /// Local directory of the archive root (to look at the pre-state of mutated paths).
    pub root: PathBuf,
    pub plan: Plan,
    pub log: Mutex<Vec<OpRec>>,
    counter: AtomicUsize,
    verb_counter: Mutex<Vec<(Verb, usize)>>,
    pub crashed: AtomicBool,
    pub notify: Arc<tokio::sync::Notify>,
    pub keep_content: bool,
}

impl Icpt {
    pub fn new(root: &std::path::Path, plan: Plan) -> Arc<Icpt> {
        Arc::new(Icpt {
            root: root.to_path_buf(),
            plan,
            log: Mutex::new(Vec::new()),
            counter: AtomicUsize::new(0),
            verb_counter: Mutex::new(Vec::new()),
            crashed: AtomicBool::new(false),
            notify: Arc::new(tokio::sync::Notify::new()),
            keep_content: true,
        })
    }

    pub fn take_log(&self) -> Vec<OpRec> {
        std::mem::take(&mut self.log.lock().unwrap())
    }

    pub fn is_crashed(&self) -> bool {
        self.crashed.load(Ordering::SeqCst)
    }

    fn pre_state(&self, op: &Op) -> Pre {
        if !is_mutating(op.verb) {
            return Pre::NotApplicable;
        }
        match std::fs::symlink_metadata(self.root.join(&op.path)) {
            Err(_) => Pre::Absent,
            Ok(m) if m.is_dir() => Pre::Dir,
            Ok(m) => Pre::File(m.len()),
        }
    }
}

impl Interceptor for Icpt {
    fn before(&self, op: &Op) -> Action {
        if self.crashed.load(Ordering::SeqCst) {
            return Action::Crash;
        }
        let idx = self.counter.fetch_add(1, Ordering::SeqCst);
        let pre = self.pre_state(op);
        let mut rec = OpRec {
            idx,
            verb: op.verb,
            path: op.path.clone(),
            create_new: op.mode.map(|m| m == WriteMode::CreateNew),
            content: if self.keep_content {
                op.content.map(|c| c.to_vec())
            } else {
                None
            },
            pre: pre.clone(),
            out: Out::None,
            injected: None,
        };
        let mut action = Action::Proceed;
        if let Some((k, leftover)) = self.plan.crash_before {
            if idx == k {
                if leftover && op.verb == Verb::Write && pre == Pre::Absent {
                    let _ = std::fs::write(self.root.join(&op.path), b"");
                    rec.injected = Some("crash leaving empty file".into());
                } else {
                    rec.injected = Some("crash".into());
                }
                self.crashed.store(true, Ordering::SeqCst);
                self.notify.notify_one();
                action = Action::Crash;
            }
        }
        if let Some((verb, n, kind)) = self.plan.fail_nth_verb {
            if verb == op.verb && action == Action::Proceed {
                let mut vc = self.verb_counter.lock().unwrap();
                let seen = match vc.iter_mut().find(|(v, _)| *v == verb) {
                    Some(e) => {
                        e.1 += 1;
                        e.1 - 1
                    }
                    None => {
                        vc.push((verb, 1));
                        0
                    }
                };
                if seen == n {
                    rec.injected = Some(format!("fail {}", kind_name(kind)));
                    action = Action::Fail(kind);
                }
            }
        }
        if let Some((verb, path, kind, delay_ms)) = &self.plan.fail_path {
            if *verb == op.verb && *path == op.path && action == Action::Proceed {
                if *delay_ms > 0 {
                    std::thread::sleep(std::time::Duration::from_millis(*delay_ms));
                }
                rec.injected = Some(format!("fail {}", kind_name(*kind)));
                action = Action::Fail(*kind);
            }
        }
        if action == Action::Proceed {
            if let Some((_, kind)) = self.plan.fail.iter().find(|(k, _)| *k == idx) {
                rec.injected = Some(format!("fail {}", kind_name(*kind)));
                action = Action::Fail(*kind);
            } else if let Some((k, kind)) = self.plan.fail_from {
                if idx >= k {
                    rec.injected = Some(format!("fail {}", kind_name(kind)));
                    action = Action::Fail(kind);
                }
            }
        }
        self.log.lock().unwrap().push(rec);
        action
    }

    fn after(&self, op: &Op, outcome: &Outcome) {
        let mut log = self.log.lock().unwrap();
        // Operations of one actor are strictly nested before/after (sync hook), so the matching
        // record is the last one without an outcome with this verb and path.
        if let Some(rec) = log
            .iter_mut()
            .rev()
            .find(|r| r.out == Out::None && r.verb == op.verb && r.path == op.path)
        {
            rec.out = record_outcome(outcome);
        }
    }
}

pub fn trace_brief(log: &[OpRec]) -> Vec<String> {
    log.iter().map(|r| r.brief()).collect()
}
