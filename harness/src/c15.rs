//! C15: exclusions mean the same thing at backup, list and restore time (E1 inputs).

use std::collections::BTreeSet;
use std::sync::atomic::{AtomicU64, Ordering as AO};

use globset::GlobBuilder;
use serde_json::{json, Value};

use crate::gen::{self, K};
use crate::report::{Report, Violation};
use crate::run::{self, BOpts, Flavor, RestoreArgs, Sel};
use crate::tree::{self, Tree};
use crate::util::{announce, par_for, Budget, Scratch};

const NAMES: [&str; 5] = ["a", "ab", "b", "é", "a.txt"];
const PATTERNS: [&str; 15] = [
    "/a", "a", "/a/b", "*", "/*", "a*", "?", "**/b", "/a/**", "[ab]", "*.txt", "é", "/a/*/b",
    // a double star glued to other characters is two plain stars: it does not cross '/'
    "a**", "/a**",
];

/// Does one pattern match this apath itself (stated anchoring; same glob primitive as the tool)?
fn pattern_matches(pattern: &str, apath: &str) -> bool {
    let p = if pattern.starts_with('/') {
        pattern.to_string()
    } else {
        format!("**/{pattern}")
    };
    GlobBuilder::new(&p)
        .literal_separator(true)
        .build()
        .expect("pattern")
        .compile_matcher()
        .is_match(apath)
}

/// The stated rule: an entry is omitted iff it or one of its ancestors (below the root) matches.
fn omitted(patterns: &[String], key: &str) -> bool {
    let comps: Vec<&str> = key.split('/').collect();
    for i in 1..=comps.len() {
        let anc = format!("/{}", comps[..i].join("/"));
        if patterns.iter().any(|p| pattern_matches(p, &anc)) {
            return true;
        }
    }
    false
}

pub fn judge(t: &Tree, hunk: usize, sets: &[Vec<String>], scratch: &Scratch, n: &AtomicU64) -> Vec<(Violation, Vec<String>)> {
    let mut v = Vec::new();
    let brief = tree::tree_brief(t);
    let src = scratch.fresh("src");
    tree::materialize(t, &src);
    let full = scratch.fresh("full");
    run::do_create_archive(&full);
    let opts = BOpts::new(hunk, 1 << 20, 1 << 20);
    let out = run::do_backup(&full, &src, &opts, run::NOHOOK, Flavor::Current);
    if !out.clean_success() {
        v.push((Violation::new("C15:backup-failed", format!("tree {brief}: {}", out.describe())), vec![]));
        return v;
    }
    for set in sets {
        n.fetch_add(1, AO::Relaxed);
        let oracle: BTreeSet<String> = t
            .keys()
            .filter(|k| !k.is_empty() && !omitted(set, k))
            .map(|k| tree::apath_of(k))
            .collect();
        // (a) backup with the exclusions
        let a = scratch.fresh("ex");
        run::do_create_archive(&a);
        let mut o2 = opts.clone();
        o2.exclude = set.clone();
        let bo = run::do_backup(&a, &src, &o2, run::NOHOOK, Flavor::Current);
        let (_, stored) = run::do_list(&a, Sel::Band(0), "/", &[], run::NOHOOK);
        let stored: BTreeSet<String> = stored.into_iter().map(|e| e.apath).filter(|p| p != "/").collect();
        // (b) listing the full backup with the exclusions
        let (lo, listed) = run::do_list(&full, Sel::Band(0), "/", set, run::NOHOOK);
        let listed: BTreeSet<String> = listed.into_iter().map(|e| e.apath).filter(|p| p != "/").collect();
        // (c) restoring the full backup with the exclusions
        let dest = scratch.fresh("rst");
        let ro = run::do_restore(
            &full,
            &dest,
            &RestoreArgs {
                sel: Sel::Band(0),
                subtree: None,
                exclude: set,
                overwrite: false,
            },
            run::NOHOOK,
            Flavor::Current,
        );
        let restored: BTreeSet<String> = tree::observe(&dest)
            .unwrap_or_default()
            .keys()
            .filter(|k| !k.is_empty())
            .map(|k| tree::apath_of(k))
            .collect();
        let at = format!("tree {brief} hunk={hunk} exclude {set:?}");
        if !bo.clean_success() || !lo.clean() || !ro.clean() {
            v.push((
                Violation::new(
                    "C15:operation-with-exclusions-failed",
                    format!("{at}: backup {} / list {} / restore {}", bo.describe(), lo.describe(), ro.describe()),
                ),
                set.clone(),
            ));
        }
        for (name, got) in [("backup", &stored), ("list", &listed), ("restore", &restored)] {
            if *got != oracle {
                let extra: Vec<&String> = got.difference(&oracle).collect();
                let missing: Vec<&String> = oracle.difference(got).collect();
                let sig = if !extra.is_empty() { "keeps-entry-that-should-be-omitted" } else { "omits-entry-that-should-be-kept" };
                v.push((
                    Violation::new(
                        format!("C15:{name}-{sig}"),
                        format!("{at}: {name} yields {got:?}; rule gives {oracle:?} (extra {extra:?}, missing {missing:?})"),
                    ),
                    set.clone(),
                ));
            }
        }
        let _ = std::fs::remove_dir_all(&a);
        let _ = std::fs::remove_dir_all(&dest);
    }
    v
}

pub fn cli_route(scratch: &Scratch) -> Vec<(Violation, Value)> {
    crate::cli::c15(scratch, &|set: &[String], key: &str| omitted(set, key), &PATTERNS)
}

pub fn pattern_sets() -> Vec<Vec<String>> {
    let pats: Vec<String> = PATTERNS.iter().map(|s| s.to_string()).collect();
    gen::subsets_upto(&pats, 2)
}

/// Wider fixed trees (every name of the menu at two levels), so that index hunks of 3 to 7
/// entries hold matching and non-matching entries side by side.
fn wide_trees() -> Vec<Tree> {
    let mut out = Vec::new();
    for variant in 0..3 {
        let mut t = crate::tree::empty_tree();
        for (i, n) in NAMES.iter().enumerate() {
            let as_dir = (i + variant) % 3 == 0;
            if as_dir {
                t.insert(n.to_string(), crate::tree::Node::dir(crate::tree::T0 + 700 + i as i64));
                for (j, m) in NAMES.iter().enumerate() {
                    if (i + j + variant) % 2 == 0 {
                        t.insert(format!("{n}/{m}"), crate::tree::Node::file(b"x", crate::tree::T0 + 710 + j as i64));
                    } else if (i + j + variant) % 4 == 1 {
                        t.insert(format!("{n}/{m}"), crate::tree::Node::symlink("../elsewhere", crate::tree::T0 + 740 + j as i64));
                    }
                }
            } else if (i + variant) % 3 == 1 {
                // symlinks are entries like any other: their own path is matched against the patterns
                t.insert(n.to_string(), crate::tree::Node::symlink("elsewhere", crate::tree::T0 + 730 + i as i64));
            } else {
                t.insert(n.to_string(), crate::tree::Node::file(b"y", crate::tree::T0 + 720 + i as i64));
            }
        }
        out.push(t);
    }
    // names the index has to escape (quote, backslash, newline, tab), some of them matched by the
    // patterns and some kept, in one hunk with ordinary names
    let mut t = crate::tree::empty_tree();
    let t0 = crate::tree::T0 + 760;
    t.insert("a.txt".into(), crate::tree::Node::file(b"x", t0));
    t.insert("a".into(), crate::tree::Node::dir(t0 + 1));
    t.insert("a/b".into(), crate::tree::Node::file(b"x", t0 + 2));
    t.insert("a/we\"ird.txt".into(), crate::tree::Node::file(b"x", t0 + 3));
    t.insert("a/back\\slash".into(), crate::tree::Node::file(b"x", t0 + 4));
    t.insert("b".into(), crate::tree::Node::dir(t0 + 5));
    t.insert("b/new\nline".into(), crate::tree::Node::file(b"x", t0 + 6));
    t.insert("b/a".into(), crate::tree::Node::symlink("../a", t0 + 7));
    t.insert("ab\tc".into(), crate::tree::Node::file(b"x", t0 + 8));
    out.push(t);
    out
}

/// The same set of globs given through a pattern file (one per line, with a blank line in between)
/// instead of as strings decides every path the same way.
fn route_check(sets: &[Vec<String>]) -> (u64, Vec<(Violation, Value)>) {
    let mut out = Vec::new();
    use conserve::Exclude;
    let scratch = Scratch::new("c15route");
    let dir = scratch.fresh("pf");
    std::fs::create_dir_all(&dir).unwrap();
    let mut probes: Vec<String> = vec!["/".into()];
    for a in NAMES {
        probes.push(format!("/{a}"));
        for b in NAMES {
            probes.push(format!("/{a}/{b}"));
            for c in NAMES {
                probes.push(format!("/{a}/{b}/{c}"));
            }
        }
    }
    let mut n = 0;
    for (i, set) in sets.iter().enumerate() {
        if set.is_empty() {
            continue;
        }
        let file = dir.join(format!("patterns{i}"));
        let (as_strings, in_file) = set.split_at(set.len() / 2);
        std::fs::write(&file, format!("{}\n\n", in_file.join("\n\n"))).unwrap();
        let direct = Exclude::from_strings(set.iter());
        let routed = Exclude::from_patterns_and_files(as_strings.iter(), [file.as_path()]);
        n += 1;
        match (direct, routed) {
            (Ok(d), Ok(r)) => {
                let differing: Vec<&String> = probes.iter().filter(|p| d.matches(p.as_str()) != r.matches(p.as_str())).collect();
                if !differing.is_empty() {
                    out.push((
                        Violation::new(
                            "C15:patterns-read-from-a-file-decide-differently",
                            format!("exclude {set:?}: with {in_file:?} read from a file (one per line, blank lines between) {} of {} probe paths are decided differently, e.g. {:?}", differing.len(), probes.len(), differing[0]),
                        ),
                        json!({"kind": "c15-route", "exclude": set}),
                    ));
                }
            }
            (d, r) => {
                if d.is_ok() != r.is_ok() {
                    out.push((
                        Violation::new("C15:patterns-read-from-a-file-decide-differently", format!("exclude {set:?}: accepted as strings: {}, from a file: {}", d.is_ok(), r.is_ok())),
                        json!({"kind": "c15-route", "exclude": set}),
                    ));
                }
            }
        }
    }
    (n, out)
}

pub fn run(report: &Report, budget: &Budget) {
    let thorough = report.thorough();
    let shapes = gen::shapes(&NAMES, &[K::Dir, K::File], if thorough { 4 } else { 3 }, 3);
    let sets = pattern_sets();
    let (n_routed, route_violations) = route_check(&sets);
    for (v, c) in &route_violations {
        report.violation(v, c);
    }
    report.set("pattern_sets_also_given_through_a_file", json!(n_routed));
    let scratches: Vec<Scratch> = (0..crate::util::n_workers()).map(|_| Scratch::new("c15")).collect();
    let n = AtomicU64::new(0);
    // wide trees x hunk sizes first
    let wides = wide_trees();
    let hunks = [1usize, 2, 3, 4, 5, 7, 1000];
    let wdone = par_for(wides.len() * hunks.len(), budget, |w, i| {
        let t = &wides[i / hunks.len()];
        let hunk = hunks[i % hunks.len()];
        let _g = announce(w, || format!("C15 wide tree {} hunk {hunk}", i / hunks.len()));
        for (v, set) in judge(t, hunk, &sets, &scratches[w], &n) {
            report.violation(&v, &json!({"kind": "c15", "tree": tree::tree_to_json(t), "exclude": set, "hunk": hunk}));
        }
        scratches[w].clear();
    });
    report.set("wide_tree_cases", json!(wdone));
    // (quick: the generated shapes meet single patterns only; pairs of patterns meet the wide trees)
    let shape_sets: Vec<Vec<String>> = if thorough { sets.clone() } else { sets.iter().filter(|s| s.len() <= 1).cloned().collect() };
    let done = par_for(shapes.len(), budget, |w, i| {
        let t = gen::tree_of(&shapes[i]);
        let hunk = [2usize, 1, 3, 1000][i % 4];
        let _g = announce(w, || format!("C15 {}", tree::tree_brief(&t)));
        for (v, set) in judge(&t, hunk, &shape_sets, &scratches[w], &n) {
            report.violation(&v, &json!({"kind": "c15", "tree": tree::tree_to_json(&t), "exclude": set, "hunk": hunk}));
        }
        if i % 199 == 3 {
            report.sample(json!({"tree": tree::tree_brief(&t), "pattern_sets": sets.len()}));
        }
        scratches[w].clear();
    });
    report.set("states", json!(done));
    report.set("trees_total", json!(shapes.len()));
    report.set("pattern_sets", json!(sets.len()));
    report.set("transitions", json!(n.load(AO::Relaxed)));
    report.set("traces_validated_against_impl", json!(n.load(AO::Relaxed) * 3));
    report.set("exhaustive", json!(done == shapes.len()));
    report.set("explanation", json!("every tree shape over the names menu x every set of at most two patterns (quick: one pattern; pairs on the wide trees) from the pattern menu: backup-with-exclusions, list-with-exclusions and restore-with-exclusions are compared with each other and with the ancestor rule"));
    report.assume("the oracle uses the same glob primitive (globset, literal_separator) so that only anchoring, ancestor closure and pruning-vs-filtering are judged, not glob dialect");
    report.assume("the root entry is left out of the comparison; no cache-tagged directories are generated");
}

pub fn replay(case: &Value) -> Vec<Violation> {
    if case["kind"] == json!("c15-route") {
        // re-run the route check for this one set
        let set: Vec<String> = case["exclude"].as_array().unwrap().iter().map(|s| s.as_str().unwrap().to_string()).collect();
        return route_check(&[set]).1.into_iter().map(|(v, _)| v).collect();
    }
    let t = tree::tree_from_json(&case["tree"]).unwrap();
    let set: Vec<String> = case["exclude"].as_array().unwrap().iter().map(|s| s.as_str().unwrap().to_string()).collect();
    let scratch = Scratch::new("replay");
    let n = AtomicU64::new(0);
    let hunk = case["hunk"].as_u64().unwrap_or(2) as usize;
    judge(&t, hunk, &[set], &scratch, &n).into_iter().map(|(v, _)| v).collect()
}
