#![allow(dead_code)]
#![allow(clippy::type_complexity)]

mod c01;
mod c02;
mod c03;
mod c04;
mod c05;
mod c06;
mod c07;
mod c08;
mod c11;
mod c12;
mod c15;
mod c16;
mod c18;
mod cli;
mod gen;
mod c13;
mod c14;
mod c17;
mod common;
mod damage;
mod e3;
mod fmt06;
mod hist;
mod hook;
mod report;
mod run;
mod tree;
mod util;

use report::Report;

/// The command-line sub-sweep of a property (see cli.rs).
pub fn cli_route(id: &str) -> Vec<(report::Violation, serde_json::Value)> {
    let scratch = util::Scratch::new("cli");
    match id {
        "C01" => cli::c01(&scratch),
        "C04" => cli::c04(&scratch),
        "C05" => cli::c05(&scratch),
        "C08" => c08::cli_route(&scratch),
        "C09" => cli::c09(&scratch),
        "C12" => cli::c12(&scratch),
        "C15" => c15::cli_route(&scratch),
        "C16" => cli::c16(&scratch),
        "C18" => c18::cli_route(&scratch),
        _ => Vec::new(),
    }
}

use util::Budget;

fn budget_for(tier: &str) -> Budget {
    let secs = std::env::var("VERIF_BUDGET_SECS")
        .ok()
        .and_then(|s| s.parse().ok())
        .unwrap_or(if tier == "thorough" { 1200 } else { 50 });
    Budget::new(secs)
}

fn level_of(id: &str) -> &'static str {
    match id {
        "C03" | "C04" | "C10" => "fault_enumeration",
        _ => "model_checking",
    }
}

fn main() {
    let args: Vec<String> = std::env::args().collect();
    if args.len() < 3 {
        eprintln!("usage: vh <property-id> <quick|thorough> | vh replay <file>");
        std::process::exit(2);
    }
    run::install_quiet_panic_hook();
    let _ = util::watch();
    if args[1] == "debug-damage" {
        let text = std::fs::read_to_string(&args[2]).expect("read replay file");
        let v: serde_json::Value = serde_json::from_str(&text).expect("parse replay file");
        damage::debug(&v["case"]);
        return;
    }
    if args[1] == "replay" {
        let text = std::fs::read_to_string(&args[2]).expect("read replay file");
        let v: serde_json::Value = serde_json::from_str(&text).expect("parse replay file");
        let id = v["property"].as_str().unwrap_or("");
        let case = &v["case"];
        let viols = match case["kind"].as_str().unwrap_or("") {
            "crash" => c03::replay(case),
            "fault" => c04::replay(case),
            k if k.starts_with("c11-") => c11::replay(case),
            "c08" => c08::replay(case),
            "c01" => c01::replay(case),
            "c12" => c12::replay(case),
            "damage" => damage::replay(case),
            "c16" | "c16-stitched" => c16::replay(case),
            "c18" => c18::replay(case),
            "c15" | "c15-route" => c15::replay(case),
            "c17-many" => c17::many_blocks_replays().into_iter().map(|(v, _)| v).collect(),
            "c09-large" => damage::replay_large(case),
            "c02-ids" => c02::high_id_cases().into_iter().map(|(v, _)| v).collect(),
            "c07-ids" => c07::high_id_cases().into_iter().map(|(v, _)| v).collect(),
            "c05-long" => c05::long_history_cases().into_iter().map(|(v, _)| v).collect(),
            "cli" => cli_route(case["property"].as_str().unwrap_or("")).into_iter().map(|(v, _)| v).collect(),
            "delete" => c05::replay(case),
            "e3" => match case["check"].as_str().unwrap_or("") {
                "C06" => c06::replay(case),
                "C07" => c07::replay_race(case),
                r => {
                    eprintln!("unknown e3 check {r:?}");
                    std::process::exit(2);
                }
            },
            "hist" => match case["rider"].as_str().unwrap_or("") {
                "C02" => c02::replay(case),
                "C07" => c07::replay_hist(case),
                "C09" => damage::replay_hist(case),
                "C13" => c13::replay_hist(case),
                "C14" => c14::replay_hist(case),
                "C17" => c17::replay(case),
                r => {
                    eprintln!("unknown history rider {r:?}");
                    std::process::exit(2);
                }
            },
            other => {
                eprintln!("unknown replay kind {other:?} for {id}");
                std::process::exit(2);
            }
        };
        println!("replayed {} ({}):", args[2], id);
        println!("  recorded: {} -- {}", v["signature"], v["what"]);
        for x in &viols {
            println!("  observed: {} -- {}", x.signature, x.what);
        }
        util::cleanup_scratch();
        let hit = viols.iter().any(|x| Some(x.signature.as_str()) == v["signature"].as_str());
        std::process::exit(if hit { 1 } else { 0 });
    }
    let id = args[1].as_str();
    let tier = args[2].as_str();
    let report = Report::new(id, tier, level_of(id));
    {
        // A case that never finishes is a verdict for the properties that promise termination.
        let id2 = id.to_string();
        util::set_hang_handler(Box::new(move |name: &str| {
            if let Some((desc, case)) = name.split_once('\t') {
                if let Ok(case) = serde_json::from_str::<serde_json::Value>(case) {
                    let r = Report::new(&id2, "quick", "model_checking");
                    r.violation(
                        &report::Violation::new(
                            format!("{id2}:operation-does-not-terminate"),
                            format!("{desc}: did not finish within the hang limit"),
                        ),
                        &case,
                    );
                    std::process::exit(1);
                }
            }
        }));
    }
    let budget = budget_for(tier);
    // The command-line sub-sweep runs beside the main sweep (its processes have their own time limit).
    let cli_thread = matches!(id, "C01" | "C04" | "C05" | "C08" | "C09" | "C12" | "C15" | "C16" | "C18").then(|| {
        let id = id.to_string();
        std::thread::spawn(move || cli_route(&id))
    });
    match id {
        "C01" => c01::run(&report, &budget),
        "C02" => c02::run(&report, &budget),
        "C03" => c03::run(&report, &budget),
        "C04" => c04::run(&report, &budget),
        "C05" => c05::run(&report, &budget),
        "C06" => c06::run(&report, &budget),
        "C07" => c07::run(&report, &budget),
        "C08" => c08::run(&report, &budget),
        "C09" => damage::run_c09(&report, &budget),
        "C10" => damage::run_c10(&report, &budget),
        "C11" => c11::run(&report, &budget),
        "C12" => c12::run(&report, &budget),
        "C13" => c13::run(&report, &budget),
        "C14" => c14::run(&report, &budget),
        "C15" => c15::run(&report, &budget),
        "C16" => c16::run(&report, &budget),
        "C17" => c17::run(&report, &budget),
        "C18" => c18::run(&report, &budget),
        _ => {
            eprintln!("unknown property {id}");
            std::process::exit(2);
        }
    }
    if let Some(h) = cli_thread {
        match h.join() {
            Ok(v) => cli::report_all(&report, v),
            Err(_) => {
                eprintln!("vh: the command-line sub-sweep panicked (machinery error, not a verdict)");
                std::process::exit(3);
            }
        }
    }
    report.set("budget_exhausted", serde_json::json!(budget.was_hit()));
    let code = report.finish();
    util::cleanup_scratch();
    std::process::exit(code);
}
