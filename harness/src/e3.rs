//! E3: interleaving explorer. Two actors run real conserve operations on one archive; a
//! controlled scheduler at the transport seam decides, before every storage operation, which actor
//! goes next. Exploration is stateless re-execution with state-hash pruning over the full product.

use std::collections::{BTreeMap, HashSet};
use std::path::{Path, PathBuf};
use std::sync::atomic::{AtomicBool, Ordering};
use std::sync::{Arc, Condvar, Mutex};

use conserve::transport::record::Verb;
use conserve::transport::verif::{Action, Interceptor, Op, Outcome};
use serde_json::{json, Value};

use crate::fmt06::Snap;
use crate::hook::{record_outcome, verb_name, Out};
use crate::run::{self, BOpts, BackupOut, DeleteOut, Flavor, Hooked};
use crate::util::{h64, Budget};

/// Hash of file content with the wall-clock fields of BANDHEAD / BANDTAIL masked.
fn content_key(path: &str, bytes: &[u8]) -> u64 {
    if path.ends_with("BANDHEAD") || path.ends_with("BANDTAIL") {
        if let Ok(serde_json::Value::Object(mut m)) = serde_json::from_slice::<serde_json::Value>(bytes) {
            for k in ["start_time", "end_time"] {
                if m.contains_key(k) {
                    m.insert(k.to_string(), json!(0));
                }
            }
            return h64(&serde_json::to_vec(&serde_json::Value::Object(m)).unwrap());
        }
    }
    h64(bytes)
}

/// Archive state maintained from the operations themselves (checked against the disk at the end).
#[derive(Clone, Debug, Default, Hash, PartialEq, Eq)]
pub struct ModelFs {
    files: BTreeMap<String, u64>,
    dirs: std::collections::BTreeSet<String>,
}

impl ModelFs {
    pub fn from_snap(s: &Snap) -> ModelFs {
        ModelFs {
            files: s.files.iter().map(|(k, v)| (k.clone(), content_key(k, v))).collect(),
            dirs: s.dirs.clone(),
        }
    }
    fn apply(&mut self, verb: Verb, path: &str, content: Option<&[u8]>) {
        match verb {
            Verb::Write => {
                self.files.insert(path.to_string(), content_key(path, content.unwrap_or(&[])));
            }
            Verb::CreateDir => {
                if !path.is_empty() {
                    self.dirs.insert(path.to_string());
                }
            }
            Verb::RemoveFile => {
                self.files.remove(path);
            }
            Verb::RemoveDirAll => {
                let pre = format!("{path}/");
                self.files.retain(|k, _| !k.starts_with(&pre));
                self.dirs.retain(|k| k != path && !k.starts_with(&pre));
            }
            _ => {}
        }
    }
}

#[derive(Clone, Debug)]
pub enum ActorSpec {
    Backup { src: PathBuf, opts: BOpts },
    Delete { bands: Vec<u32>, order: Option<Vec<usize>> },
}

#[derive(Clone, Debug)]
pub enum ActorResult {
    Backup(BackupOut),
    Delete(DeleteOut),
    Aborted,
}

impl ActorResult {
    pub fn describe(&self) -> String {
        match self {
            ActorResult::Backup(b) => format!("backup: {}", b.describe()),
            ActorResult::Delete(d) => format!("delete: {}", d.op.describe()),
            ActorResult::Aborted => "aborted".into(),
        }
    }
    pub fn class(&self) -> String {
        match self {
            ActorResult::Backup(b) => {
                if b.panicked.is_some() {
                    "B:panic".into()
                } else if let Some(s) = b.ok_stats() {
                    format!("B:ok(dedup={},errors={})", s.deduplicated_blocks, s.errors)
                } else {
                    format!("B:err({})", short_err(b.result.as_ref().and_then(|r| r.as_ref().err())))
                }
            }
            ActorResult::Delete(d) => {
                if d.op.panicked.is_some() {
                    "G:panic".into()
                } else if let Some(s) = &d.stats {
                    format!("G:ok(deleted_blocks={},bands={})", s.deleted_block_count, s.deleted_band_count)
                } else {
                    format!("G:err({})", short_err(d.op.result.as_ref().and_then(|r| r.as_ref().err())))
                }
            }
            ActorResult::Aborted => "aborted".into(),
        }
    }
    pub fn panicked(&self) -> Option<String> {
        match self {
            ActorResult::Backup(b) => b.panicked.clone(),
            ActorResult::Delete(d) => d.op.panicked.clone(),
            ActorResult::Aborted => None,
        }
    }
}

fn short_err(e: Option<&String>) -> String {
    e.map(|s| s.chars().take(40).collect()).unwrap_or_default()
}

#[derive(Clone, Debug, PartialEq, Eq)]
enum Status {
    NotStarted,
    Running,
    Parked,
    Finished,
}

#[derive(Clone, Debug)]
pub struct StepRec {
    pub actor: usize,
    pub verb: Verb,
    pub path: String,
    pub mutating: bool,
    pub pre_nonempty: bool,
    pub ok: bool,
}

struct ActorState {
    status: Status,
    pending: Option<(Verb, String, u64)>,
    history: u64,
    n_ops: usize,
    result: Option<ActorResult>,
}

struct Shared {
    actors: Vec<ActorState>,
    grant: Option<usize>,
    abort: bool,
    steps: Vec<StepRec>,
    fs: ModelFs,
}

pub struct Sched {
    root: PathBuf,
    m: Mutex<Shared>,
    cv: Condvar,
}

struct ActorIcpt {
    sched: Arc<Sched>,
    actor: usize,
    crashed: Arc<AtomicBool>,
    notify: Arc<tokio::sync::Notify>,
}

impl Interceptor for ActorIcpt {
    fn before(&self, op: &Op) -> Action {
        let s = &self.sched;
        let mut g = s.m.lock().unwrap();
        if g.abort || self.crashed.load(Ordering::SeqCst) {
            self.crashed.store(true, Ordering::SeqCst);
            self.notify.notify_one();
            return Action::Crash;
        }
        let content_hash = op.content.map(|c| content_key(&op.path, c)).unwrap_or(0);
        g.actors[self.actor].pending = Some((op.verb, op.path.clone(), content_hash));
        g.actors[self.actor].status = Status::Parked;
        s.cv.notify_all();
        loop {
            if g.abort {
                self.crashed.store(true, Ordering::SeqCst);
                self.notify.notify_one();
                return Action::Crash;
            }
            if g.grant == Some(self.actor) {
                g.grant = None;
                g.actors[self.actor].status = Status::Running;
                let pre_nonempty = std::fs::symlink_metadata(s.root.join(&op.path))
                    .map(|m| m.is_file() && m.len() > 0)
                    .unwrap_or(false);
                g.steps.push(StepRec {
                    actor: self.actor,
                    verb: op.verb,
                    path: op.path.clone(),
                    mutating: crate::hook::is_mutating(op.verb),
                    pre_nonempty,
                    ok: false,
                });
                return Action::Proceed;
            }
            g = s.cv.wait(g).unwrap();
        }
    }

    fn after(&self, op: &Op, outcome: &Outcome) {
        let out = match outcome {
            Outcome::Bytes(b) => Out::Bytes {
                len: b.len(),
                hash: content_key(&op.path, b),
            },
            o => record_outcome(o),
        };
        let mut g = self.sched.m.lock().unwrap();
        let ok = !matches!(out, Out::Err(_));
        if ok {
            g.fs.apply(op.verb, &op.path, op.content);
        }
        let a = &mut g.actors[self.actor];
        a.history = h64(&(
            a.history,
            verb_name(op.verb),
            &op.path,
            op.content.map(|c| content_key(&op.path, c)),
            &out,
        ));
        a.n_ops += 1;
        a.pending = None;
        if let Some(last) = g.steps.iter_mut().rev().find(|s| s.actor == self.actor) {
            last.ok = ok;
        }
    }
}

/// One observed decision point of an execution.
#[derive(Clone, Debug)]
pub struct Point {
    pub key: u64,
    pub enabled: Vec<usize>,
    pub choice: usize,
}

pub struct Execution {
    pub points: Vec<Point>,
    pub choices: Vec<usize>,
    /// None if the execution was cut at an already visited state.
    pub terminal: Option<Terminal>,
    pub diverged: Option<String>,
}

pub struct Terminal {
    pub results: Vec<ActorResult>,
    pub snap: Snap,
    pub steps: Vec<StepRec>,
    pub dir: PathBuf,
    pub preemptions: usize,
}

/// Run one execution: follow `prefix`, then default choices (stay with the running actor if it is
/// enabled, else the lowest enabled). `visit(key, depth)` is called at every decision point past
/// the prefix; returning false cuts the execution there.
pub fn execute(
    initial: &Snap,
    dir: &Path,
    specs: &[ActorSpec],
    prefix: &[usize],
    expect_keys: Option<&[u64]>,
    visit: &mut dyn FnMut(&Point, &[usize]) -> bool,
) -> Execution {
    initial.store(dir);
    let sched = Arc::new(Sched {
        root: dir.to_path_buf(),
        m: Mutex::new(Shared {
            actors: specs
                .iter()
                .map(|_| ActorState {
                    status: Status::NotStarted,
                    pending: None,
                    history: 0,
                    n_ops: 0,
                    result: None,
                })
                .collect(),
            grant: None,
            abort: false,
            steps: Vec::new(),
            fs: ModelFs::from_snap(initial),
        }),
        cv: Condvar::new(),
    });
    let mut handles = Vec::new();
    for (i, spec) in specs.iter().enumerate() {
        let sched2 = sched.clone();
        let spec = spec.clone();
        let dir = dir.to_path_buf();
        {
            sched.m.lock().unwrap().actors[i].status = Status::Running;
        }
        handles.push(
            std::thread::Builder::new()
                .stack_size(8 << 20)
                .spawn(move || {
                    let crashed = Arc::new(AtomicBool::new(false));
                    let notify = Arc::new(tokio::sync::Notify::new());
                    let icpt = Arc::new(ActorIcpt {
                        sched: sched2.clone(),
                        actor: i,
                        crashed: crashed.clone(),
                        notify: notify.clone(),
                    });
                    let c2 = crashed.clone();
                    let hooked = Hooked {
                        icpt,
                        notify,
                        crashed: Arc::new(move || c2.load(Ordering::SeqCst)),
                    };
                    let result = match &spec {
                        ActorSpec::Backup { src, opts } => {
                            ActorResult::Backup(run::do_backup(&dir, src, opts, Some(&hooked), Flavor::Current))
                        }
                        ActorSpec::Delete { bands, order } => ActorResult::Delete(run::do_delete(
                            &dir,
                            bands,
                            false,
                            false,
                            Some(&hooked),
                            Flavor::Current,
                            order.clone(),
                        )),
                    };
                    let aborted = crashed.load(Ordering::SeqCst);
                    let mut g = sched2.m.lock().unwrap();
                    g.actors[i].result = Some(if aborted { ActorResult::Aborted } else { result });
                    g.actors[i].status = Status::Finished;
                    g.actors[i].pending = None;
                    sched2.cv.notify_all();
                })
                .expect("spawn actor"),
        );
    }
    let mut points: Vec<Point> = Vec::new();
    let mut choices: Vec<usize> = Vec::new();
    let mut diverged = None;
    let mut cut = false;
    let mut last_actor: Option<usize> = None;
    let mut preemptions = 0;
    loop {
        // Wait until no actor is running.
        let (enabled, pendings, hists, fs_key) = {
            let mut g = sched.m.lock().unwrap();
            loop {
                if g.actors.iter().all(|a| a.status == Status::Parked || a.status == Status::Finished) {
                    break;
                }
                g = sched.cv.wait(g).unwrap();
            }
            let enabled: Vec<usize> = g
                .actors
                .iter()
                .enumerate()
                .filter(|(_, a)| a.status == Status::Parked)
                .map(|(i, _)| i)
                .collect();
            let pendings: Vec<_> = g.actors.iter().map(|a| a.pending.clone()).collect();
            let hists: Vec<_> = g
                .actors
                .iter()
                .map(|a| (a.history, a.n_ops, a.status == Status::Finished))
                .collect();
            (enabled, pendings, hists, h64(&g.fs))
        };
        if enabled.is_empty() {
            break;
        }
        let key = h64(&(
            fs_key,
            &hists,
            pendings
                .iter()
                .map(|p| p.as_ref().map(|(v, path, c)| (verb_name(*v), path.clone(), *c)))
                .collect::<Vec<_>>(),
        ));
        let i = points.len();
        let default = match last_actor {
            Some(a) if enabled.contains(&a) => a,
            _ => enabled[0],
        };
        let choice = if i < prefix.len() { prefix[i] } else { default };
        let point = Point {
            key,
            enabled: enabled.clone(),
            choice,
        };
        if let Some(keys) = expect_keys {
            if i < keys.len() && keys[i] != key {
                diverged = Some(format!("state key at step {i} differs from the recorded run"));
            }
        }
        if !enabled.contains(&choice) {
            diverged = Some(format!("choice {choice} at step {i} is not enabled ({enabled:?})"));
        }
        if diverged.is_some() {
            cut = true;
        } else if i >= prefix.len() && !visit(&point, &choices) {
            cut = true;
        }
        if cut {
            break;
        }
        if let Some(a) = last_actor {
            if a != choice && enabled.contains(&a) {
                preemptions += 1;
            }
        }
        points.push(point);
        choices.push(choice);
        last_actor = Some(choice);
        // Grant and wait until that actor parks again or finishes.
        let mut g = sched.m.lock().unwrap();
        g.grant = Some(choice);
        sched.cv.notify_all();
        loop {
            let a = &g.actors[choice];
            if g.grant.is_none() && (a.status == Status::Parked || a.status == Status::Finished) {
                break;
            }
            g = sched.cv.wait(g).unwrap();
        }
    }
    if cut {
        let mut g = sched.m.lock().unwrap();
        g.abort = true;
        sched.cv.notify_all();
    }
    for h in handles {
        let _ = h.join();
    }
    let terminal = if cut {
        None
    } else {
        let g = sched.m.lock().unwrap();
        let disk = Snap::load(dir);
        if ModelFs::from_snap(&disk) != g.fs {
            diverged = Some("archive on disk differs from the state tracked from the operations".to_string());
        }
        Some(Terminal {
            results: g.actors.iter().map(|a| a.result.clone().unwrap_or(ActorResult::Aborted)).collect(),
            snap: disk,
            steps: g.steps.clone(),
            dir: dir.to_path_buf(),
            preemptions,
        })
    };
    Execution {
        points,
        choices,
        terminal,
        diverged,
    }
}

pub struct ExploreStats {
    pub executions: usize,
    pub states: usize,
    pub transitions: usize,
    pub terminal_runs: usize,
    pub complete: bool,
    pub max_trace: usize,
}

/// Explore every interleaving (full product, state-hashed). `on_terminal` judges each terminal run.
/// Workers share the visited set and the stack of unexplored prefixes: whichever worker first
/// reaches a state schedules all its alternatives, later arrivals are cut there.
pub fn explore(
    initial: &Snap,
    specs: &[ActorSpec],
    budget: &Budget,
    on_terminal: &(dyn Fn(&Terminal, &[usize], &crate::util::Scratch) + Sync),
) -> ExploreStats {
    use std::sync::atomic::{AtomicUsize, Ordering as O};
    let visited: Mutex<HashSet<u64>> = Mutex::new(HashSet::new());
    let stack: Mutex<Vec<Vec<usize>>> = Mutex::new(vec![Vec::new()]);
    let in_flight = AtomicUsize::new(0);
    let executions = AtomicUsize::new(0);
    let transitions = AtomicUsize::new(0);
    let terminal_runs = AtomicUsize::new(0);
    let max_trace = AtomicUsize::new(0);
    let incomplete = AtomicBool::new(false);
    let nw = crate::util::n_workers().min(12);
    let widx = AtomicUsize::new(0);
    std::thread::scope(|sc| {
        for _ in 0..nw {
            sc.spawn(|| {
                let w = 32 + widx.fetch_add(1, O::SeqCst);
                let scratch = crate::util::Scratch::new("e3w");
                loop {
                    if budget.exceeded() {
                        incomplete.store(true, O::SeqCst);
                        break;
                    }
                    let prefix = {
                        let mut st = stack.lock().unwrap();
                        match st.pop() {
                            Some(p) => {
                                in_flight.fetch_add(1, O::SeqCst);
                                Some(p)
                            }
                            None => None,
                        }
                    };
                    let prefix = match prefix {
                        Some(p) => p,
                        None => {
                            if in_flight.load(O::SeqCst) == 0 {
                                break;
                            }
                            std::thread::sleep(std::time::Duration::from_micros(300));
                            continue;
                        }
                    };
                    let dir = scratch.fresh("x");
                    let _g = crate::util::announce(w, || format!("E3 execution with schedule prefix {prefix:?}"));
                    let mut new_prefixes: Vec<Vec<usize>> = Vec::new();
                    let mut tr = 0usize;
                    let mut visit = |p: &Point, so_far: &[usize]| -> bool {
                        if !visited.lock().unwrap().insert(p.key) {
                            return false;
                        }
                        for alt in &p.enabled {
                            if *alt != p.choice {
                                let mut np = so_far.to_vec();
                                np.push(*alt);
                                new_prefixes.push(np);
                            }
                        }
                        tr += p.enabled.len();
                        true
                    };
                    let ex = execute(initial, &dir, specs, &prefix, None, &mut visit);
                    executions.fetch_add(1, O::SeqCst);
                    transitions.fetch_add(tr, O::SeqCst);
                    max_trace.fetch_max(ex.choices.len(), O::SeqCst);
                    if let Some(d) = &ex.diverged {
                        on_terminal_err(d);
                        incomplete.store(true, O::SeqCst);
                    }
                    if let Some(t) = &ex.terminal {
                        terminal_runs.fetch_add(1, O::SeqCst);
                        on_terminal(t, &ex.choices, &scratch);
                    }
                    stack.lock().unwrap().extend(new_prefixes);
                    in_flight.fetch_sub(1, O::SeqCst);
                    scratch.clear();
                }
            });
        }
    });
    let states = visited.lock().unwrap().len();
    ExploreStats {
        executions: executions.load(O::SeqCst),
        states,
        transitions: transitions.load(O::SeqCst),
        terminal_runs: terminal_runs.load(O::SeqCst),
        complete: !incomplete.load(O::SeqCst),
        max_trace: max_trace.load(O::SeqCst),
    }
}

fn on_terminal_err(e: &str) {
    eprintln!("vh: e3: {e}");
}

pub fn schedule_string(choices: &[usize], names: &[&str]) -> String {
    // Run-length encoding: B4 G15 B14 G2
    let mut out = Vec::new();
    let mut i = 0;
    while i < choices.len() {
        let a = choices[i];
        let mut n = 0;
        while i < choices.len() && choices[i] == a {
            n += 1;
            i += 1;
        }
        out.push(format!("{}{}", names[a], n));
    }
    out.join(" ")
}

pub fn specs_json(specs: &[ActorSpec]) -> Value {
    json!(specs
        .iter()
        .map(|s| match s {
            ActorSpec::Backup { opts, .. } => json!({"backup": opts.to_json()}),
            ActorSpec::Delete { bands, order } => json!({"delete": bands, "order": order}),
        })
        .collect::<Vec<_>>())
}

pub fn count_preemptions(choices: &[usize], points: &[Point]) -> usize {
    let mut n = 0;
    for i in 1..choices.len() {
        if choices[i] != choices[i - 1] && points[i].enabled.contains(&choices[i - 1]) {
            n += 1;
        }
    }
    n
}

pub fn steps_brief(steps: &[StepRec], names: &[&str]) -> Vec<String> {
    steps
        .iter()
        .map(|s| format!("{}: {} {}", names[s.actor], verb_name(s.verb), s.path))
        .collect()
}

pub type Written = BTreeMap<String, Vec<usize>>;

/// Which actors successfully wrote or created each path.
pub fn writers(steps: &[StepRec]) -> Written {
    let mut m: Written = BTreeMap::new();
    for s in steps {
        if s.ok && s.verb == Verb::Write {
            m.entry(s.path.clone()).or_default().push(s.actor);
        }
    }
    m
}
