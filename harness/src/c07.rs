//! C07: archive files are write-once; backup never alters or removes existing files.
//! E1 histories (op log of every backup / delete event) + E3 (two racing backups).

use std::collections::{BTreeMap, BTreeSet};
use std::sync::atomic::{AtomicUsize, Ordering};
use std::sync::Mutex;

use conserve::transport::record::Verb;
use serde_json::{json, Value};

use crate::common::{self, restore_exact, SrcCache, Step};
use crate::e3::{self, ActorSpec, Terminal};
use crate::fmt06::{band_dir, parse_band_dir, Snap};
use crate::hist::{self, Op, Transition};
use crate::hook::Pre;
use crate::report::{Report, Violation};
use crate::run::BOpts;
use crate::tree::{empty_tree, Cmp, Node, Tree, T0};
use crate::util::{Budget, Scratch};

/// History rider: judge the operation log and the before/after snapshots of every event.
pub fn oracle(tr: &Transition) -> Vec<Violation> {
    let mut v = Vec::new();
    let at = tr.at();
    match &tr.ev.op {
        Op::Backup(_) | Op::Crashed(..) => {
            let kind = if matches!(tr.ev.op, Op::Crashed(..)) { "interrupted-backup" } else { "backup" };
            for (f, bytes) in &tr.parent.snap.files {
                match tr.child.snap.files.get(f) {
                    Some(b) if b == bytes => {}
                    Some(_) if bytes.is_empty() => {} // a zero-length leftover may be completed
                    Some(_) => v.push(Violation::new(
                        format!("C07:{kind}-altered-existing-file"),
                        format!("{at}: {f} changed"),
                    )),
                    None => v.push(Violation::new(
                        format!("C07:{kind}-removed-existing-file"),
                        format!("{at}: {f} is gone"),
                    )),
                }
            }
            let max_before = tr.parent.snap.band_ids().last().cloned();
            let mut written = BTreeSet::new();
            for r in tr.log {
                match r.verb {
                    Verb::Write => {
                        if matches!(r.pre, Pre::File(n) if n > 0) && r.ok() {
                            v.push(Violation::new(
                                format!("C07:{kind}-wrote-over-existing-file"),
                                format!("{at}: {} (existing {:?})", r.brief(), r.pre),
                            ));
                        }
                        if !written.insert(r.path.clone()) {
                            v.push(Violation::new(
                                format!("C07:{kind}-wrote-path-twice"),
                                format!("{at}: {}", r.brief()),
                            ));
                        }
                        if let Some(b) = r.path.split('/').next().and_then(parse_band_dir) {
                            if max_before.is_some_and(|m| b <= m) {
                                v.push(Violation::new(
                                    format!("C07:{kind}-wrote-into-existing-version"),
                                    format!("{at}: {} while b{:04} already existed", r.brief(), max_before.unwrap()),
                                ));
                            }
                        }
                    }
                    Verb::RemoveFile | Verb::RemoveDirAll => v.push(Violation::new(
                        format!("C07:{kind}-removed-something"),
                        format!("{at}: {}", r.brief()),
                    )),
                    _ => {}
                }
            }
        }
        Op::Delete(_) | Op::Gc => {
            let requested: Vec<u32> = match &tr.ev.op {
                Op::Delete(b) => b.clone(),
                _ => vec![],
            };
            let remaining: Vec<u32> = tr
                .parent
                .snap
                .band_ids()
                .into_iter()
                .filter(|b| !requested.contains(b))
                .collect();
            let keep = common::referenced(&tr.parent.snap, &remaining);
            for r in tr.log {
                match r.verb {
                    Verb::Write if r.path != "GC_LOCK" => v.push(Violation::new(
                        "C07:delete-wrote-a-file",
                        format!("{at}: {}", r.brief()),
                    )),
                    Verb::RemoveFile if r.path != "GC_LOCK" => {
                        let name = r.path.rsplit('/').next().unwrap_or("");
                        if !r.path.starts_with("d/") || keep.contains(name) {
                            v.push(Violation::new(
                                "C07:delete-removed-unexpected-file",
                                format!("{at}: {}", r.brief()),
                            ));
                        }
                    }
                    Verb::RemoveDirAll => {
                        if !requested.iter().any(|b| band_dir(*b) == r.path) {
                            v.push(Violation::new(
                                "C07:delete-removed-unexpected-directory",
                                format!("{at}: {}", r.brief()),
                            ));
                        }
                    }
                    _ => {}
                }
            }
            // Files other than the requested versions', unreferenced blocks and the lock survive.
            for (f, bytes) in &tr.parent.snap.files {
                let in_requested = requested.iter().any(|b| f.starts_with(&format!("{}/", band_dir(*b))));
                let name = f.rsplit('/').next().unwrap_or("");
                let unref_block = f.starts_with("d/") && !keep.contains(name);
                if in_requested || unref_block || f == "GC_LOCK" {
                    continue;
                }
                if tr.child.snap.files.get(f) != Some(bytes) {
                    v.push(Violation::new(
                        "C07:delete-altered-or-removed-kept-file",
                        format!("{at}: {f}"),
                    ));
                }
            }
        }
        Op::Garbage(_) => {}
    }
    v
}

// ---------------------------------------------------------------------------------------------
// Race of two backups

pub struct Race2 {
    pub name: String,
    pub initial: Snap,
    pub band_src: BTreeMap<u32, Tree>,
    pub specs: Vec<ActorSpec>,
    pub srcs: Vec<Tree>,
}

fn tree_a() -> Tree {
    let mut t = empty_tree();
    t.insert("a1".into(), Node::file(b"AAAAaaaa", T0 + 301));
    t.insert("shared".into(), Node::file(b"SSSSSSSS", T0 + 302));
    t
}

fn tree_b() -> Tree {
    let mut t = empty_tree();
    t.insert("b1".into(), Node::file(b"BBBBbbbb", T0 + 311));
    t.insert("b2".into(), Node::file(b"bbbbBBBB", T0 + 312));
    t.insert("shared".into(), Node::file(b"SSSSSSSS", T0 + 313));
    t
}

pub fn race_scenario(name: &str, srcs: &SrcCache) -> Race2 {
    if name == "backup||backup-combined-small-files" {
        // small files combined into shared blocks, several hunks, a previous version
        let opts = BOpts::new(2, 8, 6);
        let scn = common::build_scenario(name, &[Step::Backup(common::tree_t1(), opts.clone())], common::tree_t2(), opts.clone(), srcs);
        let (ta, tb) = (common::tree_t2(), common::tree_t3());
        return Race2 {
            name: name.to_string(),
            initial: scn.pre.clone(),
            band_src: scn.band_src.clone(),
            specs: vec![
                ActorSpec::Backup { src: srcs.dir_for(&ta), opts: opts.clone() },
                ActorSpec::Backup { src: srcs.dir_for(&tb), opts },
            ],
            srcs: vec![ta, tb],
        };
    }
    let opts = BOpts::new(2, 1 << 20, 0);
    let hist: Vec<Step> = match name {
        "backup||backup-empty-archive" => vec![],
        "backup||backup-after-b0" => vec![Step::Backup(tree_a(), opts.clone())],
        other => panic!("unknown race scenario {other}"),
    };
    let (ta, tb) = if hist.is_empty() {
        (tree_a(), tree_b())
    } else {
        let mut ta = tree_a();
        ta.insert("a1".into(), Node::file(b"A2A2A2A2", T0 + 321));
        (ta, tree_b())
    };
    let scn = common::build_scenario(name, &hist, ta.clone(), opts.clone(), srcs);
    Race2 {
        name: name.to_string(),
        initial: scn.pre.clone(),
        band_src: scn.band_src.clone(),
        specs: vec![
            ActorSpec::Backup {
                src: srcs.dir_for(&ta),
                opts: opts.clone(),
            },
            ActorSpec::Backup {
                src: srcs.dir_for(&tb),
                opts,
            },
        ],
        srcs: vec![ta, tb],
    }
}

pub fn race_oracle(scn: &Race2, t: &Terminal, scratch: &Scratch) -> Vec<Violation> {
    let mut v = Vec::new();
    let classes: Vec<String> = t.results.iter().map(|r| r.class()).collect();
    let at = format!("{} outcome {classes:?}", scn.name);
    for r in &t.results {
        if let Some(p) = r.panicked() {
            v.push(Violation::new("C07:race-panic", format!("{at}: {p}")));
        }
    }
    // Files of two actors in one band directory
    let mut band_writers: BTreeMap<u32, BTreeSet<usize>> = BTreeMap::new();
    for s in &t.steps {
        if s.verb == Verb::Write && s.ok {
            if let Some(b) = s.path.split('/').next().and_then(parse_band_dir) {
                band_writers.entry(b).or_default().insert(s.actor);
            }
            if s.pre_nonempty {
                v.push(Violation::new(
                    "C07:race-write-replaced-existing-file",
                    format!("{at}: actor {} wrote {} which already existed with content", s.actor, s.path),
                ));
            }
        }
    }
    for (b, ws) in &band_writers {
        if ws.len() > 1 {
            v.push(Violation::new(
                "C07:race-two-backups-wrote-into-one-version",
                format!("{at}: b{b:04} holds files written by both backups"),
            ));
        }
    }
    // If both chose the same id, exactly one may succeed.
    let chosen: Vec<Option<u32>> = (0..2)
        .map(|a| {
            t.steps
                .iter()
                .find(|s| s.actor == a && s.verb == Verb::CreateDir && parse_band_dir(&s.path).is_some())
                .and_then(|s| parse_band_dir(&s.path))
        })
        .collect();
    let oks: Vec<bool> = t
        .results
        .iter()
        .map(|r| matches!(r, e3::ActorResult::Backup(b) if b.ok_stats().is_some()))
        .collect();
    if chosen[0].is_some() && chosen[0] == chosen[1] && oks[0] && oks[1] {
        v.push(Violation::new(
            "C07:race-both-backups-succeeded-on-one-id",
            format!("{at}: both backups chose b{:04} and both reported success", chosen[0].unwrap()),
        ));
    }
    // Every file of the initial archive is untouched.
    for (f, bytes) in &scn.initial.files {
        if t.snap.files.get(f) != Some(bytes) {
            v.push(Violation::new(
                "C07:race-existing-file-changed",
                format!("{at}: {f}"),
            ));
        }
    }
    // A backup that reports complete success restores its own source exactly; one that reported
    // skipped files may lack those files but never holds wrong content.
    // A backup never removes anything, whatever it races with.
    for s in &t.steps {
        if s.ok && matches!(s.verb, Verb::RemoveFile | Verb::RemoveDirAll) {
            v.push(Violation::new(
                "C07:race-backup-removed-something",
                format!("{at}: actor {} issued {} {}", s.actor, crate::hook::verb_name(s.verb), s.path),
            ));
        }
    }
    for a in 0..2 {
        if let e3::ActorResult::Backup(out) = &t.results[a] {
            if let (Some(stats), Some(b)) = (out.ok_stats(), chosen[a]) {
                // the band of a backup that returned Ok exists and is complete, whatever the
                // other backup did
                if !t.snap.has_tail_file(b) || !t.snap.has_head(b) {
                    v.push(Violation::new(
                        "C07:race-successful-backup-version-gone",
                        format!("{at}: actor {a} returned Ok for b{b:04} but that version is not there as a complete band"),
                    ));
                    continue;
                }
                // (if both wrote into one band its content is nobody's: reported above)
                if band_writers.get(&b).is_none_or(|w| w.len() == 1) {
                    let clean = stats.errors == 0;
                    let dest = scratch.fresh("rr");
                    let ro = crate::run::do_restore(&t.dir, &dest, &crate::run::RestoreArgs::band(b), crate::run::NOHOOK, crate::run::Flavor::Current);
                    let got = crate::tree::observe(&dest).unwrap_or_default();
                    let _ = std::fs::remove_dir_all(&dest);
                    let mut diffs = crate::tree::tree_diff(&scn.srcs[a], &got, Cmp { dir_mtime: clean, ..Cmp::FULL });
                    if !clean {
                        diffs.retain(|d| !d.starts_with("missing "));
                    }
                    if !ro.is_ok() || (clean && !ro.monitor_errors.is_empty()) || !diffs.is_empty() {
                        v.push(Violation::new(
                            "C07:race-successful-backup-does-not-restore",
                            format!("{at}: b{b:04} (errors={}): {} {diffs:?}", stats.errors, ro.describe()),
                        ));
                    }
                }
            }
        }
    }
    v
}

pub fn race_names(thorough: bool) -> Vec<&'static str> {
    if thorough {
        vec!["backup||backup-empty-archive", "backup||backup-after-b0", "backup||backup-combined-small-files"]
    } else {
        vec!["backup||backup-empty-archive", "backup||backup-after-b0"]
    }
}

/// "A new version always gets an id above every existing one" where the id gets one more digit or
/// the newest existing directory has no head: a real backup onto hand-written archives.
pub fn high_id_cases() -> Vec<(Violation, Value)> {
    use crate::fmt06::{self, BandSpec, Snap};
    let mut out = Vec::new();
    let scratch = Scratch::new("c07ids");
    let t = crate::common::tree_t1();
    let src = scratch.fresh("src");
    crate::tree::materialize(&t, &src);
    for newest in [9u32, 99, 999, 9999, 10000, 10009] {
        for headless_newest in [false, true] {
            let dir = scratch.fresh("a");
            fmt06::write_archive_skeleton(&dir);
            for (id, complete) in [(newest.saturating_sub(7), true), (newest - 1, true), (newest, !headless_newest)] {
                if id == newest && headless_newest {
                    std::fs::create_dir_all(dir.join(fmt06::band_dir(id)).join("i")).unwrap();
                } else {
                    fmt06::write_band(&dir, &BandSpec { id, head: true, tail: complete.then_some(1), hunks: vec![vec![fmt06::symlink_entry("/a", "x")]] });
                }
            }
            let before = Snap::load(&dir);
            let o = crate::run::do_backup(&dir, &src, &crate::run::BOpts::defaults(), crate::run::NOHOOK, crate::run::Flavor::Current);
            let after = Snap::load(&dir);
            let new_ids: Vec<u32> = after.band_ids().into_iter().filter(|b| !before.band_ids().contains(b)).collect();
            let at = format!("archive with versions up to b{newest}{}: backup {}", if headless_newest { " (a directory without a head)" } else { "" }, o.describe());
            if o.ok_stats().is_none() || new_ids.len() != 1 || new_ids[0] <= newest {
                out.push((
                    Violation::new("C07:new-version-id-not-above-existing:band-ids-with-more-digits", format!("{at}: new version directories {new_ids:?}")),
                    json!({"kind": "c07-ids"}),
                ));
            }
            for (f, bytes) in &before.files {
                if after.files.get(f) != Some(bytes) {
                    out.push((
                        Violation::new("C07:existing-file-changed:band-ids-with-more-digits", format!("{at}: {f} was altered or removed")),
                        json!({"kind": "c07-ids"}),
                    ));
                    break;
                }
            }
            let _ = std::fs::remove_dir_all(&dir);
        }
    }
    out
}

pub fn run(report: &Report, budget: &Budget) {
    for (v, c) in high_id_cases() {
        report.violation(&v, &c);
    }
    // Part 1: histories
    let thorough = report.thorough();
    let depth = if thorough { 3 } else { 2 };
    let hist_budget = crate::util::sub_budget(if thorough { 600 } else { 25 });
    let st = hist::explore(report, &hist_budget, "C07", depth, thorough, thorough, thorough, &oracle, None, None);
    hist::write_stats(report, &st, depth);
    report.set("history_part", json!({"states": st.states, "transitions": st.transitions, "depth_completed": st.depth_completed}));
    // Part 2: two racing backups (E3)
    let srcs = SrcCache::new();
    let mut per = Vec::new();
    let mut tot = (st.states, st.transitions, st.executions);
    let mut all_complete = st.depth_completed == depth;
    for name in race_names(thorough) {
        let scn = race_scenario(name, &srcs);
        let violating = AtomicUsize::new(0);
        let minp: Mutex<Option<(usize, Vec<usize>)>> = Mutex::new(None);
        let on_terminal = |t: &Terminal, choices: &[usize], scratch: &Scratch| {
            let vs = race_oracle(&scn, t, scratch);
            report.outcome(format!("race:{:?}", t.results.iter().map(|r| r.class()).collect::<Vec<_>>()));
            if t.preemptions >= 2 && choices.len() % 5 == 0 {
                report.sample(json!({"scenario": scn.name, "explored_schedule": e3::schedule_string(choices, &["A", "B"]), "preemptions": t.preemptions,
                    "outcome": t.results.iter().map(|r| r.class()).collect::<Vec<_>>()}));
            }
            if !vs.is_empty() {
                violating.fetch_add(1, Ordering::SeqCst);
                let mut m = minp.lock().unwrap();
                if m.as_ref().is_none_or(|(p, _)| t.preemptions < *p) {
                    *m = Some((t.preemptions, choices.to_vec()));
                }
            }
            for v in vs {
                let case = json!({"kind": "e3", "check": "C07", "scenario": scn.name, "schedule": choices,
                    "schedule_rle": e3::schedule_string(choices, &["A", "B"]), "preemptions": t.preemptions,
                    "steps": e3::steps_brief(&t.steps, &["A", "B"])});
                report.violation(&v, &case);
            }
        };
        let es = e3::explore(&scn.initial, &scn.specs, budget, &on_terminal);
        tot.0 += es.states;
        tot.1 += es.transitions;
        tot.2 += es.executions;
        all_complete &= es.complete;
        let m = minp.into_inner().unwrap();
        per.push(json!({"scenario": name, "states": es.states, "transitions": es.transitions, "executions": es.executions,
            "terminal_runs": es.terminal_runs, "violating_runs": violating.load(Ordering::SeqCst), "complete": es.complete,
            "min_preemption_counterexample": m.as_ref().map(|(p, c)| json!({"preemptions": p, "schedule": e3::schedule_string(c, &["A", "B"])}))}));
    }
    report.set("race_part", json!(per));
    report.set("states", json!(tot.0));
    report.set("transitions", json!(tot.1));
    report.set("traces_validated_against_impl", json!(tot.2));
    report.set("exhaustive", json!(all_complete));
    report.assume("race part: two backup actors, full product of their storage-operation traces, state-hashed");
}

pub fn replay_hist(case: &Value) -> Vec<Violation> {
    hist::replay(case, &oracle, None)
}

pub fn replay_race(case: &Value) -> Vec<Violation> {
    let srcs = SrcCache::new();
    let scratch = Scratch::new("replay");
    let scn = race_scenario(case["scenario"].as_str().unwrap(), &srcs);
    let schedule: Vec<usize> = case["schedule"].as_array().unwrap().iter().map(|x| x.as_u64().unwrap() as usize).collect();
    let dir = scratch.fresh("e3");
    let mut visit = |_: &e3::Point, _: &[usize]| true;
    let ex = e3::execute(&scn.initial, &dir, &scn.specs, &schedule, None, &mut visit);
    if let Some(d) = &ex.diverged {
        eprintln!("replay diverged: {d}");
        std::process::exit(2);
    }
    match &ex.terminal {
        Some(t) => {
            for s in e3::steps_brief(&t.steps, &["A", "B"]) {
                println!("    {s}");
            }
            race_oracle(&scn, t, &scratch)
        }
        None => Vec::new(),
    }
}
