//! C08: listing a version follows the stitching rule and is strictly ordered (E1 inputs).
//! Archives are written by the independent writer; every arrangement within the bound is listed.

use std::cmp::Ordering;
use std::sync::atomic::{AtomicU64, Ordering as AO};

use serde_json::{json, Value};

use crate::fmt06::{self, apath_cmp, apath_under, ref_stitch, BandSpec, Snap};
use crate::report::{Report, Violation};
use crate::run::{self, Sel};
use crate::util::{announce, par_for, Budget, Scratch};

#[derive(Clone, Debug, PartialEq, Eq)]
pub enum BandState {
    Absent,
    /// A directory without a BANDHEAD.
    Headless,
    /// A directory whose BANDHEAD is a zero-length file (a killed write).
    EmptyHead,
    /// (complete?, hunks of path indices, tail count offset)
    Present {
        complete: bool,
        hunks: Vec<Vec<usize>>,
        tail_extra: u64,
    },
}

/// All compositions of a sorted list into consecutive non-empty hunks.
fn compositions(items: &[usize]) -> Vec<Vec<Vec<usize>>> {
    if items.is_empty() {
        return vec![vec![]];
    }
    let n = items.len();
    let mut out = Vec::new();
    for mask in 0..(1u32 << (n - 1)) {
        let mut hunks = vec![vec![items[0]]];
        for i in 1..n {
            if mask & (1 << (i - 1)) != 0 {
                hunks.push(vec![items[i]]);
            } else {
                hunks.last_mut().unwrap().push(items[i]);
            }
        }
        out.push(hunks);
    }
    out
}

pub fn band_states(n_paths: usize, thorough: bool) -> Vec<BandState> {
    // (a directory without a BANDHEAD is what a backup killed during band creation leaves)
    let mut v = vec![BandState::Absent, BandState::Headless, BandState::EmptyHead];
    for mask in 0..(1u32 << n_paths) {
        let items: Vec<usize> = (0..n_paths).filter(|i| mask & (1 << i) != 0).collect();
        for hunks in compositions(&items) {
            for complete in [true, false] {
                v.push(BandState::Present {
                    complete,
                    hunks: hunks.clone(),
                    tail_extra: 0,
                });
            }
            if thorough && !hunks.is_empty() {
                // a complete band whose tail states one more hunk than is present (lost trailing hunk)
                v.push(BandState::Present {
                    complete: true,
                    hunks: hunks.clone(),
                    tail_extra: 1,
                });
            }
        }
    }
    v
}

pub fn write_archive(dir: &std::path::Path, paths: &[&str], bands: &[BandState]) {
    write_archive_from(dir, paths, bands, 0)
}

/// The same with band ids base, base+1, ... (ids with more digits, ids containing every digit).
pub fn write_archive_from(dir: &std::path::Path, paths: &[&str], bands: &[BandState], base: usize) {
    fmt06::write_archive_skeleton(dir);
    for (id, st) in bands.iter().enumerate().map(|(i, st)| (i + base, st)) {
        match st {
            BandState::Absent => {}
            BandState::Headless => {
                std::fs::create_dir_all(dir.join(fmt06::band_dir(id as u32)).join("i")).unwrap();
            }
            BandState::EmptyHead => {
                std::fs::create_dir_all(dir.join(fmt06::band_dir(id as u32)).join("i")).unwrap();
                std::fs::write(dir.join(fmt06::band_dir(id as u32)).join("BANDHEAD"), b"").unwrap();
            }
            BandState::Present {
                complete,
                hunks,
                tail_extra,
            } => {
                let spec = BandSpec {
                    id: id as u32,
                    head: true,
                    tail: if *complete { Some(hunks.len() as u64 + tail_extra) } else { None },
                    hunks: hunks
                        .iter()
                        .map(|h| h.iter().map(|pi| fmt06::symlink_entry(paths[*pi], &format!("from-b{id}"))).collect())
                        .collect(),
                };
                fmt06::write_band(dir, &spec);
            }
        }
    }
}

pub static OUTCOMES: std::sync::Mutex<std::collections::BTreeSet<String>> = std::sync::Mutex::new(std::collections::BTreeSet::new());

pub fn judge(dir: &std::path::Path, bands: &[BandState], desc: &str, deep: bool) -> (Vec<Violation>, u64) {
    judge_from(dir, bands, desc, deep, 0)
}

pub fn judge_from(dir: &std::path::Path, bands: &[BandState], desc: &str, deep: bool, base: usize) -> (Vec<Violation>, u64) {
    let mut v = Vec::new();
    let snap = Snap::load(dir);
    let mut listings = 0u64;
    for (id, st) in bands.iter().enumerate().map(|(i, st)| (i + base, st)) {
        if !matches!(st, BandState::Present { .. }) {
            continue;
        }
        let full = ref_stitch(&snap, id as u32);
        let subtrees: &[&str] = if deep { &["/", "/a", "/b", "/a-b", "/zz"] } else { &["/", "/a"] };
        let excludes: &[Option<&str>] = if deep { &[None, Some("/a"), Some("x"), Some("/b")] } else { &[None, Some("/a")] };
        for subtree in subtrees.iter().cloned() {
            for exclude in excludes.iter().cloned() {
                let expect: Vec<(String, String)> = full
                    .iter()
                    .filter(|(e, _)| apath_under(subtree, &e.apath))
                    .filter(|(e, _)| {
                        exclude.is_none_or(|x| {
                            if x.starts_with('/') {
                                !apath_under(x, &e.apath)
                            } else {
                                // unanchored name: omitted if any component equals it
                                !e.apath[1..].split('/').any(|c| c == x)
                            }
                        })
                    })
                    .map(|(e, from)| (e.apath.clone(), format!("from-b{from}")))
                    .collect();
                let ex: Vec<String> = exclude.iter().map(|s| s.to_string()).collect();
                let (op, got) = run::do_list(dir, Sel::Band(id as u32), subtree, &ex, run::NOHOOK);
                listings += 1;
                let at = format!("{desc}: listing b{id:04} subtree={subtree} exclude={exclude:?}");
                if let Some(p) = &op.panicked {
                    v.push(Violation::new("C08:listing-panicked", format!("{at}: {p}")));
                    continue;
                }
                if !op.is_ok() {
                    let sig = if op.describe().contains("did not terminate") {
                        "C08:listing-does-not-terminate"
                    } else {
                        "C08:listing-failed"
                    };
                    v.push(Violation::new(sig, format!("{at}: {}", op.describe())));
                    continue;
                }
                OUTCOMES.lock().unwrap().insert(format!(
                    "entries={} from_bands={}",
                    expect.len(),
                    expect.iter().map(|e| e.1.as_str()).collect::<std::collections::BTreeSet<_>>().len()
                ));
                let got_l: Vec<(String, String)> = got
                    .iter()
                    .map(|e| (e.apath.clone(), e.target.clone().unwrap_or_default()))
                    .collect();
                for w in got_l.windows(2) {
                    if apath_cmp(&w[0].0, &w[1].0) != Ordering::Less {
                        v.push(Violation::new(
                            "C08:listing-not-strictly-increasing",
                            format!("{at}: {:?} then {:?}", w[0].0, w[1].0),
                        ));
                    }
                }
                if got_l != expect {
                    let sig = if got_l.iter().map(|e| &e.0).eq(expect.iter().map(|e| &e.0)) {
                        "C08:entry-from-wrong-version"
                    } else {
                        "C08:listing-differs-from-stitching-rule"
                    };
                    v.push(Violation::new(
                        sig,
                        format!("{at}: got {got_l:?}, the stitching rule gives {expect:?}"),
                    ));
                }
            }
        }
    }
    (v, listings)
}

fn describe(bands: &[BandState], paths: &[&str]) -> String {
    bands
        .iter()
        .enumerate()
        .map(|(i, b)| match b {
            BandState::Absent => format!("b{i}:absent"),
            BandState::Headless => format!("b{i}:headless"),
            BandState::EmptyHead => format!("b{i}:empty-head"),
            BandState::Present {
                complete,
                hunks,
                tail_extra,
            } => format!(
                "b{i}:{}{}{:?}",
                if *complete { "complete" } else { "incomplete" },
                if *tail_extra > 0 { "(tail+1)" } else { "" },
                hunks.iter().map(|h| h.iter().map(|p| paths[*p]).collect::<Vec<_>>()).collect::<Vec<_>>()
            ),
        })
        .collect::<Vec<_>>()
        .join(" ")
}

fn state_json(b: &BandState) -> Value {
    match b {
        BandState::Absent => json!("absent"),
        BandState::Headless => json!("headless"),
        BandState::EmptyHead => json!("empty-head"),
        BandState::Present {
            complete,
            hunks,
            tail_extra,
        } => json!({"complete": complete, "hunks": hunks, "tail_extra": tail_extra}),
    }
}

fn state_from_json(v: &Value) -> BandState {
    if v == &json!("absent") {
        BandState::Absent
    } else if v == &json!("headless") {
        BandState::Headless
    } else if v == &json!("empty-head") {
        BandState::EmptyHead
    } else {
        BandState::Present {
            complete: v["complete"].as_bool().unwrap(),
            hunks: v["hunks"]
                .as_array()
                .unwrap()
                .iter()
                .map(|h| h.as_array().unwrap().iter().map(|x| x.as_u64().unwrap() as usize).collect())
                .collect(),
            tail_extra: v["tail_extra"].as_u64().unwrap(),
        }
    }
}

/// Path alphabet: apath order /a < /b < /a/x < /b/y differs from string order.
const PATHS: [&str; 4] = ["/a", "/b", "/a/x", "/b/y"];
/// Second alphabet (thorough): a sibling that extends the excluded / selected name textually.
const PATHS2: [&str; 4] = ["/a", "/a-b", "/a/x", "/a-b/y"];

pub fn cli_route(scratch: &Scratch) -> Vec<(Violation, Value)> {
    let paths = &PATHS[..2];
    let mut states = band_states(2, false);
    states.push(BandState::Present { complete: false, hunks: vec![vec![0], vec![], vec![1]], tail_extra: 0 });
    states.push(BandState::Present { complete: true, hunks: vec![vec![], vec![0, 1]], tail_extra: 0 });
    let mut archives = Vec::new();
    for a in &states {
        for b in &states {
            let bands = vec![a.clone(), b.clone()];
            let dir = scratch.fresh("w");
            write_archive(&dir, paths, &bands);
            archives.push((describe(&bands, paths), dir));
        }
    }
    crate::cli::c08(scratch, &archives)
}

pub fn run(report: &Report, budget: &Budget) {
    let thorough = report.thorough();
    // (number of paths, number of bands) sweeps
    let sweeps: Vec<(usize, usize, bool, &[&str; 4])> = if thorough {
        vec![(3, 3, true, &PATHS), (4, 3, false, &PATHS2), (4, 3, false, &PATHS), (3, 4, false, &PATHS)]
    } else {
        vec![(3, 3, false, &PATHS)]
    };
    let scratches: Vec<Scratch> = (0..crate::util::n_workers()).map(|_| Scratch::new("c08")).collect();
    let listings = AtomicU64::new(0);
    let mut archives_total = 0u64;
    let mut archives_done = 0u64;
    let mut complete = true;
    let t_start = std::time::Instant::now();
    for (np, nb, extra, alphabet) in sweeps {
        let states = band_states(np, extra);
        let n = states.len().pow(nb as u32);
        archives_total += n as u64;
        let paths = &alphabet[..np];
        let done = par_for(n, budget, |w, idx| {
            let mut bands = Vec::new();
            let mut k = idx;
            for _ in 0..nb {
                bands.push(states[k % states.len()].clone());
                k /= states.len();
            }
            let desc = describe(&bands, paths);
            let _g = announce(w, || {
                format!(
                    "C08 {desc}\t{}",
                    json!({"kind": "c08", "paths": paths, "bands": bands.iter().map(state_json).collect::<Vec<_>>()})
                )
            });
            let dir = scratches[w].fresh("a");
            write_archive(&dir, paths, &bands);
            let (vs, nl) = judge(&dir, &bands, &desc, extra);
            listings.fetch_add(nl, AO::Relaxed);
            for v in &vs {
                report.violation(v, &json!({"kind": "c08", "paths": paths, "bands": bands.iter().map(state_json).collect::<Vec<_>>()}));
            }
            if idx % 4999 == 17 {
                report.sample(json!({"archive": desc}));
            }
            let _ = std::fs::remove_dir_all(&dir);
        });
        archives_done += done as u64;
        if done < n {
            complete = false;
            break;
        }
        report.set(&format!("sweep_{np}_paths_{nb}_bands_{}_completed", if alphabet[1] == "/b" { "alphabet1" } else { "alphabet2" }), json!({"band_states": states.len(), "archives": n, "with_headless_and_lost_hunk_states": extra}));
    }
    report.set("seconds_after_basic_sweeps", json!(t_start.elapsed().as_secs_f64()));
    // Empty hunks: a hunk holding the empty list is legal (old versions wrote them) and is one more
    // way "how entries are split into hunks". Exactly one band of the archive gets one empty hunk
    // at every position of every layout; the other bands range over the basic states.
    if complete {
        let np = if thorough { 3 } else { 2 };
        let nb = 3usize;
        let basic = band_states(np, false);
        let mut with_empty = Vec::new();
        for st in &basic {
            if let BandState::Present { complete, hunks, .. } = st {
                for pos in 0..=hunks.len() {
                    let mut h = hunks.clone();
                    h.insert(pos, Vec::new());
                    with_empty.push(BandState::Present { complete: *complete, hunks: h, tail_extra: 0 });
                }
            }
        }
        let others = basic.len().pow(nb as u32 - 1);
        let n = nb * with_empty.len() * others;
        archives_total += n as u64;
        let paths = &PATHS[..np];
        let done = par_for(n, budget, |w, idx| {
            let which = idx % nb;
            let special = &with_empty[(idx / nb) % with_empty.len()];
            let mut k = idx / nb / with_empty.len();
            let mut bands = Vec::new();
            for b in 0..nb {
                if b == which {
                    bands.push(special.clone());
                } else {
                    bands.push(basic[k % basic.len()].clone());
                    k /= basic.len();
                }
            }
            let desc = describe(&bands, paths);
            let case = json!({"kind": "c08", "paths": paths, "bands": bands.iter().map(state_json).collect::<Vec<_>>()});
            let _g = announce(w, || format!("C08 {desc}\t{case}"));
            let dir = scratches[w].fresh("a");
            write_archive(&dir, paths, &bands);
            let (vs, nl) = judge(&dir, &bands, &desc, false);
            listings.fetch_add(nl, AO::Relaxed);
            for v in &vs {
                report.violation(v, &case);
            }
            let _ = std::fs::remove_dir_all(&dir);
        });
        archives_done += done as u64;
        if done < n {
            complete = false;
        } else {
            report.set("sweep_one_band_with_an_empty_hunk_completed", json!({"paths": np, "bands": nb, "states_with_empty_hunk": with_empty.len(), "archives": n}));
        }
    }
    report.set("seconds_after_empty_hunk_sweep", json!(t_start.elapsed().as_secs_f64()));
    // Band ids with more digits and with every digit: the same arrangements at ids 8-10, 98-100 and
    // 9998-10000 (the directory name grows from four to five digits between the last two).
    if complete {
        let np = 2usize;
        let nb = 3usize;
        // (head-less and empty-head directories are left to the first sweep)
        let states: Vec<BandState> = band_states(np, false).into_iter().filter(|s| !matches!(s, BandState::Headless | BandState::EmptyHead)).collect();
        let bases = [8usize, 98, 9998];
        let per = states.len().pow(nb as u32);
        let n = per * bases.len();
        // (below b9998 nothing exists: an incomplete b9998 makes the tool probe every lower id, so
        // at that base the lowest version is kept complete)
        let lowest_complete = |bands: &[BandState]| matches!(bands[0], BandState::Present { complete: true, .. });
        archives_total += n as u64;
        let paths = &PATHS[..np];
        let done = par_for(n, budget, |w, idx| {
            let base = bases[idx / per];
            let mut k = idx % per;
            let mut bands = Vec::new();
            for _ in 0..nb {
                bands.push(states[k % states.len()].clone());
                k /= states.len();
            }
            if base > 1000 && !lowest_complete(&bands) {
                return;
            }
            let desc = format!("ids from {base}: {}", describe(&bands, paths));
            let case = json!({"kind": "c08", "paths": paths, "bands": bands.iter().map(state_json).collect::<Vec<_>>(), "base": base});
            let _g = announce(w, || format!("C08 {desc}\t{case}"));
            let dir = scratches[w].fresh("a");
            write_archive_from(&dir, paths, &bands, base);
            let (vs, nl) = judge_from(&dir, &bands, &desc, false, base);
            listings.fetch_add(nl, AO::Relaxed);
            for v in &vs {
                report.violation(v, &case);
            }
            let _ = std::fs::remove_dir_all(&dir);
        });
        archives_done += done as u64;
        if done < n {
            complete = false;
        } else {
            report.set("sweep_high_band_ids_completed", json!({"paths": np, "bands": nb, "first_ids": bases, "archives": n}));
        }
    }
    report.set("seconds_after_high_id_sweep", json!(t_start.elapsed().as_secs_f64()));
    for o in OUTCOMES.lock().unwrap().iter() {
        report.outcome(o.clone());
    }
    report.set("states", json!(archives_done));
    report.set("archives_total", json!(archives_total));
    report.set("transitions", json!(listings.load(AO::Relaxed)));
    report.set("traces_validated_against_impl", json!(listings.load(AO::Relaxed)));
    report.set("exhaustive", json!(complete));
    report.set("explanation", json!("states = archives written by the independent writer (every arrangement of band states within the bound); transitions = listings executed by the real code and compared with the reference stitch function"));
    report.assume("entries are symlinks whose target names the band they were written in (provenance); hunks written by the independent writer are sorted and non-overlapping");
    report.assume("watchdog: a listing yielding more than 100000 entries or running longer than the hang limit counts as non-termination");
}

pub fn replay(case: &Value) -> Vec<Violation> {
    let paths: Vec<&str> = case["paths"].as_array().unwrap().iter().map(|p| p.as_str().unwrap()).collect();
    let bands: Vec<BandState> = case["bands"].as_array().unwrap().iter().map(state_from_json).collect();
    let scratch = Scratch::new("replay");
    let dir = scratch.fresh("a");
    let base = case["base"].as_u64().unwrap_or(0) as usize;
    write_archive_from(&dir, &paths, &bands, base);
    judge_from(&dir, &bands, &describe(&bands, &paths), true, base).0
}
