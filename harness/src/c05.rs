//! C05: deleting versions and collecting garbage never harm what is kept (E1 histories + E2).

use std::collections::BTreeSet;
use std::path::Path;

use conserve::transport::record::Verb;
use serde_json::{json, Value};

use crate::common::{self, restore_exact, SrcCache};
use crate::fmt06::{band_dir, Snap};
use crate::hist::{self, HState, Transition};
use crate::hook::{Icpt, OpRec, Plan, FAULT_KINDS};
use crate::report::{Report, Violation};
use crate::run::{self, DeleteOut, Flavor};
use crate::tree::Cmp;
use crate::util::{Budget, Scratch};

fn subsets(ids: &[u32]) -> Vec<Vec<u32>> {
    let n = ids.len().min(5);
    (0..(1u32 << n))
        .map(|m| (0..n).filter(|i| m & (1 << i) != 0).map(|i| ids[i]).collect())
        .collect()
}

fn present_blocks(s: &Snap) -> BTreeSet<String> {
    s.block_files()
        .into_iter()
        .filter(|(_, p)| !s.files[p].is_empty())
        .map(|(n, _)| n)
        .collect()
}

fn case(st: &HState, sub: &[u32], dry: bool, plan: &Plan, order: &Option<Vec<usize>>) -> Value {
    json!({"kind": "delete", "seed": st.seed, "path": st.path.iter().map(|e| e.to_json()).collect::<Vec<_>>(),
        "delete": sub, "dry_run": dry, "plan": plan.to_json(), "order": order})
}

fn run_delete(
    st: &HState,
    dir: &Path,
    sub: &[u32],
    dry: bool,
    plan: &Plan,
    order: &Option<Vec<usize>>,
) -> (DeleteOut, Vec<OpRec>, Snap) {
    st.snap.store(dir);
    let icpt = Icpt::new(dir, plan.clone());
    let out = run::do_delete(dir, sub, dry, false, Some(&icpt), Flavor::Current, order.clone());
    let log = icpt.take_log();
    (out, log, Snap::load(dir))
}

/// Oracle for what must survive any delete run (finished, refused, crashed or faulted): every
/// complete version that is still there afterwards - requested for deletion or not - restores
/// exactly and keeps all its blocks ("every remaining complete version"), and no version that was
/// not requested is gone.
fn kept_intact(
    st: &HState,
    dir: &Path,
    after: &Snap,
    sub: &[u32],
    scratch: &Scratch,
    at: &str,
    site: &str,
) -> Vec<Violation> {
    let mut v = Vec::new();
    for (b, expected) in &st.live {
        let requested = sub.contains(b);
        if !after.dirs.contains(&band_dir(*b)) {
            if !requested {
                v.push(Violation::new(
                    format!("C05:unrequested-version-removed:{site}"),
                    format!("{at}: b{b:04} was not requested but its directory is gone"),
                ));
            }
            continue;
        }
        if requested && !(after.has_head_file(*b) && after.has_tail_file(*b)) {
            continue; // partly removed: no longer a complete version
        }
        let diffs = restore_exact(dir, *b, expected, scratch, Cmp::FULL);
        if !diffs.is_empty() {
            v.push(Violation::new(
                format!(
                    "C05:{}:{site}",
                    if requested { "version-still-present-no-longer-restores" } else { "kept-version-no-longer-restores" }
                ),
                format!("{at}: b{b:04}: {diffs:?}"),
            ));
        }
    }
    let remaining: Vec<u32> = after
        .band_ids()
        .into_iter()
        .filter(|b| !sub.contains(b) || (after.has_head_file(*b) && after.has_tail_file(*b)))
        .collect();
    let problems = common::ref_scan(after, &remaining);
    if !problems.is_empty() {
        v.push(Violation::new(
            format!("C05:referenced-block-removed:{site}"),
            format!("{at}: {problems:?}"),
        ));
    }
    v
}

/// The fault-free oracle for one (state, subset, dry) run.
fn judge_fault_free(
    st: &HState,
    dir: &Path,
    sub: &[u32],
    dry: bool,
    out: &DeleteOut,
    log: &[OpRec],
    after: &Snap,
    scratch: &Scratch,
) -> Vec<Violation> {
    let at = format!(
        "seed {} after {:?}: delete {sub:?}{}",
        st.seed,
        st.describe_path(),
        if dry { " (dry run)" } else { "" }
    );
    let mut v = Vec::new();
    if let Some(p) = &out.op.panicked {
        v.push(Violation::new("C05:delete-panicked", format!("{at}: {p}")));
        return v;
    }
    if dry {
        if *after != st.snap {
            v.push(Violation::new(
                "C05:dry-run-changed-archive",
                format!("{at}: archive differs after a dry run ({})", out.op.describe()),
            ));
        }
        for r in log {
            if r.is_mutating() && r.path != "GC_LOCK" {
                v.push(Violation::new(
                    "C05:dry-run-mutating-operation",
                    format!("{at}: {}", r.brief()),
                ));
            }
        }
        return v;
    }
    let site = if out.op.is_ok() { "completed" } else { "refused" };
    v.extend(kept_intact(st, dir, after, sub, scratch, &at, site));
    if out.op.is_ok() {
        let before_ids: BTreeSet<u32> = st.snap.band_ids().into_iter().collect();
        let want: BTreeSet<u32> = before_ids.iter().filter(|b| !sub.contains(b)).cloned().collect();
        let got: BTreeSet<u32> = after.band_ids().into_iter().collect();
        if want != got {
            v.push(Violation::new(
                "C05:wrong-versions-after-delete",
                format!("{at}: versions afterwards {got:?}, expected {want:?}"),
            ));
        }
        let remaining: Vec<u32> = got.iter().cloned().collect();
        let referenced = common::referenced(after, &remaining);
        let garbage: Vec<String> = present_blocks(after)
            .into_iter()
            .filter(|b| !referenced.contains(b))
            .collect();
        if !garbage.is_empty() {
            v.push(Violation::new(
                "C05:unreferenced-block-remains",
                format!("{at}: {} unreferenced blocks left, e.g. {}…", garbage.len(), &garbage[0][..12]),
            ));
        }
        if after.files.contains_key("GC_LOCK") {
            v.push(Violation::new(
                "C05:lock-left-behind",
                format!("{at}: GC_LOCK still present after a successful delete"),
            ));
        }
        // Only the lock, requested band directories and unreferenced blocks were removed.
        let keep_ref = common::referenced(&st.snap, &remaining);
        for r in log {
            match r.verb {
                Verb::Write if r.path != "GC_LOCK" => v.push(Violation::new(
                    "C05:delete-wrote-a-file",
                    format!("{at}: {}", r.brief()),
                )),
                Verb::RemoveFile if r.path != "GC_LOCK" => {
                    let name = r.path.rsplit('/').next().unwrap_or("");
                    if !r.path.starts_with("d/") || keep_ref.contains(name) {
                        v.push(Violation::new(
                            "C05:delete-removed-unexpected-file",
                            format!("{at}: {}", r.brief()),
                        ));
                    }
                }
                Verb::RemoveDirAll => {
                    if !sub.iter().any(|b| band_dir(*b) == r.path) {
                        v.push(Violation::new(
                            "C05:delete-removed-unexpected-directory",
                            format!("{at}: {}", r.brief()),
                        ));
                    }
                }
                _ => {}
            }
        }
    }
    v
}

fn permutations(n: usize) -> Vec<Option<Vec<usize>>> {
    if n <= 1 {
        return vec![None];
    }
    if n > 3 {
        return vec![None, Some(vec![usize::MAX])];
    }
    let mut out = Vec::new();
    let mut p: Vec<usize> = (0..n).collect();
    fn rec(k: usize, p: &mut Vec<usize>, out: &mut Vec<Option<Vec<usize>>>) {
        if k == p.len() {
            out.push(Some(p.clone()));
            return;
        }
        for i in k..p.len() {
            p.swap(k, i);
            rec(k + 1, p, out);
            p.swap(k, i);
        }
    }
    rec(0, &mut p, &mut out);
    out
}

/// State rider: all subsets x {dry, real}; with `deep`, also every crash point (all block-deletion
/// orders) and every failing read of each real run.
pub fn on_state(
    st: &HState,
    scratch: &Scratch,
    deep: bool,
    deep_all_subsets: bool,
    counters: &Counters,
) -> Vec<(Violation, Value)> {
    let mut out = Vec::new();
    let ids = st.snap.band_ids();
    // A delete that names a version which does not exist, before and after an existing one: it
    // fails, and whatever is still there afterwards must be unharmed.
    if let Some(b) = ids.first() {
        for sub in [vec![9999, *b], vec![*b, 9999]] {
            let dir = scratch.fresh("d");
            let (o, _log, after) = run_delete(st, &dir, &sub, false, &Plan::none(), &None);
            counters.runs.fetch_add(1, std::sync::atomic::Ordering::SeqCst);
            let at = format!("seed {} after {:?}: delete {sub:?} (9999 does not exist) -> {}", st.seed, st.describe_path(), o.op.describe());
            let c = case(st, &sub, false, &Plan::none(), &None);
            if let Some(p) = &o.op.panicked {
                out.push((Violation::new("C05:delete-panicked", format!("{at}: {p}")), c.clone()));
            }
            for v in kept_intact(st, &dir, &after, &sub, scratch, &at, "names-a-missing-version") {
                out.push((v, c.clone()));
            }
            let _ = std::fs::remove_dir_all(&dir);
        }
    }
    for sub in subsets(&ids) {
        for dry in [true, false] {
            let dir = scratch.fresh("d");
            let (o, log, after) = run_delete(st, &dir, &sub, dry, &Plan::none(), &None);
            counters.runs.fetch_add(1, std::sync::atomic::Ordering::SeqCst);
            let c = case(st, &sub, dry, &Plan::none(), &None);
            for v in judge_fault_free(st, &dir, &sub, dry, &o, &log, &after, scratch) {
                out.push((v, c.clone()));
            }
            let _ = std::fs::remove_dir_all(&dir);
            if dry || !deep {
                continue;
            }
            // (quick tier on non-seed states: crash/fault enumeration for pure gc, a single
            // version and all versions only)
            if !deep_all_subsets && !(sub.is_empty() || sub.len() == 1 || sub.len() == ids.len()) {
                continue;
            }
            // E2 on this run's trace.
            let n_unref = log
                .iter()
                .filter(|r| r.verb == Verb::RemoveFile && r.path.starts_with("d/"))
                .count();
            let first_block_removal = log
                .iter()
                .find(|r| r.verb == Verb::RemoveFile && r.path.starts_with("d/"))
                .map(|r| r.idx);
            for r in log.iter() {
                if r.is_mutating() {
                    let orders = if Some(r.idx) > first_block_removal && first_block_removal.is_some() {
                        permutations(n_unref)
                    } else {
                        vec![None]
                    };
                    for order in orders {
                        let plan = Plan::crash(r.idx, false);
                        let dir = scratch.fresh("d");
                        let (o2, log2, after2) = run_delete(st, &dir, &sub, false, &plan, &order);
                        counters.crash.fetch_add(1, std::sync::atomic::Ordering::SeqCst);
                        let at = format!(
                            "seed {} after {:?}: delete {sub:?} killed before op {} ({}) order {:?}",
                            st.seed,
                            st.describe_path(),
                            r.idx,
                            r.brief(),
                            order
                        );
                        let c = case(st, &sub, false, &plan, &order);
                        if !o2.op.crashed {
                            if let Some(p) = &o2.op.panicked {
                                out.push((Violation::new("C05:delete-panicked", format!("{at}: {p}")), c.clone()));
                            }
                        }
                        let _ = log2;
                        let site = format!("killed-before-{}", crate::c03::crash_site(r, false));
                        for v in kept_intact(st, &dir, &after2, &sub, scratch, &at, &site) {
                            out.push((v, c.clone()));
                        }
                        let _ = std::fs::remove_dir_all(&dir);
                    }
                } else {
                    for kind in FAULT_KINDS {
                        let plan = Plan::fail1(r.idx, kind);
                        let dir = scratch.fresh("d");
                        let (o2, _log2, after2) = run_delete(st, &dir, &sub, false, &plan, &None);
                        counters.fault.fetch_add(1, std::sync::atomic::Ordering::SeqCst);
                        let at = format!(
                            "seed {} after {:?}: delete {sub:?} with {} ({}) -> {}",
                            st.seed,
                            st.describe_path(),
                            plan.describe(),
                            r.brief(),
                            o2.op.describe()
                        );
                        let c = case(st, &sub, false, &plan, &None);
                        let site = format!("failed-{}", crate::c03::crash_site(r, false));
                        for v in kept_intact(st, &dir, &after2, &sub, scratch, &at, &site) {
                            out.push((v, c.clone()));
                        }
                        let _ = std::fs::remove_dir_all(&dir);
                    }
                }
            }
        }
    }
    out
}

#[derive(Default)]
pub struct Counters {
    pub runs: std::sync::atomic::AtomicUsize,
    pub crash: std::sync::atomic::AtomicUsize,
    pub fault: std::sync::atomic::AtomicUsize,
}

/// A history of twelve versions (band ids with two significant digits and every digit), each
/// holding a block of its own; single versions, a prefix and nothing (gc) are deleted.
pub fn long_history_cases() -> Vec<(Violation, Value)> {
    let mut out = Vec::new();
    let scratch = Scratch::new("c05long");
    let trees: Vec<crate::tree::Tree> = (0..12u32)
        .map(|i| {
            let mut t = crate::common::tree_t1();
            t.insert("own".into(), crate::tree::Node::file(format!("content only version {i} has, {}", "x".repeat(i as usize)).as_bytes(), crate::tree::T0 + 300 + i as i64));
            // several dozen index hunks per version (one entry per hunk), each file a block of its
            // own, half of them different in every version
            for k in 0..40u32 {
                let body = if k % 2 == 0 { format!("file {k} as in every version") } else { format!("file {k} of version {i} only") };
                let mt = crate::tree::T0 + 320 + k as i64 + if k % 2 == 0 { 0 } else { 100 * (i as i64 + 1) };
                t.insert(format!("m{k:02}"), crate::tree::Node::file(body.as_bytes(), mt));
            }
            t
        })
        .collect();
    let arch = scratch.fresh("a");
    run::do_create_archive(&arch);
    for t in &trees {
        let src = scratch.fresh("s");
        crate::tree::materialize(t, &src);
        let o = run::do_backup(&arch, &src, &crate::run::BOpts::new(1, 1 << 20, 8), run::NOHOOK, Flavor::Current);
        if !o.clean_success() {
            out.push((Violation::new("C05:backup-failed", format!("building the twelve-version history: {}", o.describe())), json!({"kind": "c05-long"})));
            return out;
        }
        let _ = std::fs::remove_dir_all(&src);
    }
    let base = Snap::load(&arch);
    let subs: Vec<Vec<u32>> = vec![vec![3], vec![9], vec![10], vec![11], (0..9).collect(), (0..11).collect(), vec![]];
    for sub in subs {
        let dir = scratch.fresh("d");
        base.store(&dir);
        let o = run::do_delete(&dir, &sub, false, false, run::NOHOOK, Flavor::Current, None);
        let after = Snap::load(&dir);
        let at = format!("twelve versions b0000..b0011, delete {sub:?}: {}", o.op.describe());
        let want: Vec<u32> = (0..12).filter(|b| !sub.contains(b)).collect();
        if !o.op.is_ok() || after.band_ids() != want {
            out.push((Violation::new("C05:wrong-versions-after-delete:long-history", format!("{at}: versions afterwards {:?}, expected {want:?}", after.band_ids())), json!({"kind": "c05-long"})));
            continue;
        }
        for b in &want {
            let diffs = restore_exact(&dir, *b, &trees[*b as usize], &scratch, Cmp::FULL);
            if !diffs.is_empty() {
                out.push((Violation::new("C05:kept-version-no-longer-restores:long-history", format!("{at}: b{b:04}: {diffs:?}")), json!({"kind": "c05-long"})));
            }
        }
        let problems = common::ref_scan(&after, &want);
        let referenced = common::referenced(&after, &want);
        let garbage = present_blocks(&after).into_iter().filter(|b| !referenced.contains(b)).count();
        if !problems.is_empty() || garbage > 0 {
            out.push((Violation::new("C05:blocks-wrong-after-delete:long-history", format!("{at}: {garbage} unreferenced blocks left; {problems:?}")), json!({"kind": "c05-long"})));
        }
        let _ = std::fs::remove_dir_all(&dir);
    }
    out
}

pub fn run(report: &Report, budget: &Budget) {
    for (v, c) in long_history_cases() {
        report.violation(&v, &c);
    }
    let thorough = report.thorough();
    let (depth, deep_depth) = if thorough { (2, 1) } else { (1, 1) };
    let counters = Counters::default();
    let noop = |_: &Transition| Vec::new();
    let f = |st: &HState, scratch: &Scratch, _srcs: &SrcCache| -> Vec<(Violation, Value)> {
        on_state(st, scratch, st.depth <= deep_depth, thorough || st.depth == 0, &counters)
    };
    let st = hist::explore(report, budget, "C05", depth, thorough, false, thorough, &noop, Some(&f), None);
    hist::write_stats(report, &st, depth);
    use std::sync::atomic::Ordering::SeqCst;
    report.set("delete_runs_fault_free", json!(counters.runs.load(SeqCst)));
    report.set("delete_crash_cases", json!(counters.crash.load(SeqCst)));
    report.set("delete_read_fault_cases", json!(counters.fault.load(SeqCst)));
    report.set(
        "traces_validated_against_impl",
        json!(st.executions + counters.runs.load(SeqCst) + counters.crash.load(SeqCst) + counters.fault.load(SeqCst)),
    );
    report.set("deep_depth", json!(deep_depth));
    report.assume("remove_dir_all of a band directory is one atomic operation at this granularity");
    report.assume("a delete that refuses (lock present, newest band incomplete) is a legal outcome; only 'nothing kept is harmed' is checked for it");
}

pub fn replay(case: &Value) -> Vec<Violation> {
    let srcs = SrcCache::new();
    let all = hist::seeds(&srcs);
    let seed = case["seed"].as_u64().unwrap() as usize;
    let path: Vec<hist::Ev> = case["path"].as_array().unwrap().iter().map(hist::Ev::from_json).collect();
    let mut st = all.into_iter().find(|s| s.seed == seed).expect("seed");
    let skip = st.path.len();
    let scratch = Scratch::new("replay");
    for ev in path.iter().skip(skip) {
        let dir = scratch.fresh("a");
        st = hist::execute(&st, ev, &dir, &srcs, Flavor::Current, false).expect("enabled").child;
    }
    let sub: Vec<u32> = case["delete"].as_array().unwrap().iter().map(|b| b.as_u64().unwrap() as u32).collect();
    let dry = case["dry_run"].as_bool().unwrap();
    let plan = Plan::from_json(&case["plan"]);
    let order: Option<Vec<usize>> = case["order"].as_array().map(|a| a.iter().map(|x| x.as_u64().unwrap() as usize).collect());
    let dir = scratch.fresh("d");
    let (o, log, after) = run_delete(&st, &dir, &sub, dry, &plan, &order);
    let at = format!("replay: delete {sub:?} {} -> {}", plan.describe(), o.op.describe());
    if plan.crash_before.is_none() && plan.fail.is_empty() {
        judge_fault_free(&st, &dir, &sub, dry, &o, &log, &after, &scratch)
    } else {
        let idx = plan.crash_before.map(|c| c.0).or(plan.fail.first().map(|f| f.0)).unwrap();
        let site = log
            .get(idx)
            .map(|r| {
                format!(
                    "{}-{}",
                    if plan.crash_before.is_some() { "killed-before" } else { "failed" },
                    crate::c03::crash_site(r, false)
                )
            })
            .unwrap_or_default();
        kept_intact(&st, &dir, &after, &sub, &scratch, &at, &site)
    }
}
