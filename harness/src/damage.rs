//! E2 damage at rest: C09 (validate is loud on damage, silent on healthy archives) and C10 (damage
//! to one stored file is contained and never crashes the tool).

use std::collections::{BTreeMap, BTreeSet};
use std::path::Path;
use std::sync::atomic::{AtomicU64, Ordering as AO};
use std::sync::Mutex;

use serde_json::{json, Value};

use crate::common::{self, restore_exact, SrcCache, Step};
use crate::fmt06::{self, band_dir, Snap};
use crate::hist::{self, Transition};
use crate::report::{Report, Violation};
use crate::run::{self, BOpts, Flavor, OpOut, RestoreArgs, Sel};
use crate::tree::{self, Cmp, NodeKind, Tree};
use crate::util::{announce, h64, par_for, Budget, Scratch};

#[derive(Clone, Debug, PartialEq)]
pub enum Damage {
    Delete,
    Truncate0,
    TruncateHalf,
    Garbage,
    Flip(usize),
}

impl Damage {
    pub fn name(&self) -> String {
        match self {
            Damage::Delete => "delete".into(),
            Damage::Truncate0 => "truncate-0".into(),
            Damage::TruncateHalf => "truncate-half".into(),
            Damage::Garbage => "garbage".into(),
            Damage::Flip(b) => format!("flip-bit-{b}"),
        }
    }
    pub fn class(&self) -> &'static str {
        match self {
            Damage::Delete => "delete",
            Damage::Truncate0 => "truncate-0",
            Damage::TruncateHalf => "truncate-half",
            Damage::Garbage => "garbage",
            Damage::Flip(_) => "bit-flip",
        }
    }
    pub fn apply(&self, snap: &mut Snap, file: &str) {
        match self {
            Damage::Delete => {
                snap.files.remove(file);
            }
            Damage::Truncate0 => {
                snap.files.insert(file.to_string(), Vec::new());
            }
            Damage::TruncateHalf => {
                let b = snap.files.get_mut(file).unwrap();
                let n = b.len() / 2;
                b.truncate(n);
            }
            Damage::Garbage => {
                let b = snap.files.get_mut(file).unwrap();
                for (i, x) in b.iter_mut().enumerate() {
                    *x = (0xA5u8).wrapping_add((i * 13) as u8);
                }
            }
            Damage::Flip(bit) => {
                let b = snap.files.get_mut(file).unwrap();
                b[bit / 8] ^= 1 << (bit % 8);
            }
        }
    }
    pub fn to_json(&self) -> Value {
        match self {
            Damage::Flip(b) => json!({"flip": b}),
            d => json!(d.name()),
        }
    }
    pub fn from_json(v: &Value) -> Damage {
        if let Some(b) = v.get("flip") {
            return Damage::Flip(b.as_u64().unwrap() as usize);
        }
        match v.as_str().unwrap() {
            "delete" => Damage::Delete,
            "truncate-0" => Damage::Truncate0,
            "truncate-half" => Damage::TruncateHalf,
            _ => Damage::Garbage,
        }
    }
}

pub fn file_class(path: &str) -> &'static str {
    if path == "CONSERVE" {
        "archive-header"
    } else if path.ends_with("/BANDHEAD") {
        "BANDHEAD"
    } else if path.ends_with("/BANDTAIL") {
        "BANDTAIL"
    } else if path.contains("/i/") {
        "index-hunk"
    } else if path.starts_with("d/") {
        "block"
    } else {
        "other"
    }
}

pub struct DamageArchive {
    pub name: String,
    pub snap: Snap,
    pub band_src: BTreeMap<u32, Tree>,
    pub complete: BTreeSet<u32>,
    /// Source used for the follow-up backup.
    pub src: Tree,
    pub opts: BOpts,
}

pub fn archives_for(srcs: &SrcCache, thorough: bool) -> Vec<DamageArchive> {
    let mut v = archives(srcs);
    if thorough {
        let s = common::opts_s();
        let t1 = common::tree_t1();
        let t2 = common::tree_t2();
        let t3 = common::tree_t3();
        let mk = |name: &str, hist: &[Step], src: crate::tree::Tree, opts: BOpts| {
            let scn = common::build_scenario(name, hist, src.clone(), opts.clone(), srcs);
            DamageArchive {
                name: name.to_string(),
                snap: scn.pre,
                band_src: scn.band_src,
                complete: scn.complete,
                src,
                opts,
            }
        };
        v.push(mk(
            "A4-gap(b0,b2)+b3(T3,incomplete)",
            &[
                Step::Backup(t1.clone(), s.clone()),
                Step::Backup(t2.clone(), s.clone()),
                Step::Backup(t2.clone(), s.clone()),
                Step::Delete(vec![1]),
                Step::CrashedBackup(t3.clone(), s.clone(), 8),
            ],
            t3.clone(),
            s.clone(),
        ));
        v.push(mk(
            "A5-duplicate-contents",
            &[Step::Backup(common::tree_dups(), BOpts::new(3, 8, 6))],
            common::tree_dups(),
            BOpts::new(3, 8, 6),
        ));
    }
    v
}

pub fn archives(srcs: &SrcCache) -> Vec<DamageArchive> {
    let s = common::opts_s();
    let t1 = common::tree_t1();
    let t2 = common::tree_t2();
    let mk = |name: &str, hist: &[Step], opts: BOpts| {
        let scn = common::build_scenario(name, hist, t2.clone(), opts.clone(), srcs);
        DamageArchive {
            name: name.to_string(),
            snap: scn.pre,
            band_src: scn.band_src,
            complete: scn.complete,
            src: t2.clone(),
            opts,
        }
    };
    let many = {
        // 150 one-block files and 150 duplicates of them: several blocks share a sub-directory,
        // and one restore reads more blocks than the cache holds
        let mut t = crate::tree::empty_tree();
        for round in 0..2 {
            for i in 0..150u32 {
                t.insert(format!("r{round}f{i:03}"), crate::tree::Node::file(format!("{i:08}").as_bytes(), crate::tree::T0 + 80 + i as i64));
            }
        }
        let opts = BOpts::new(100, 8, 3);
        let scn = common::build_scenario("A6-many-blocks", &[Step::Backup(t.clone(), opts.clone())], t.clone(), opts.clone(), srcs);
        DamageArchive {
            name: "A6-many-blocks".to_string(),
            snap: scn.pre,
            band_src: scn.band_src,
            complete: scn.complete,
            src: t,
            opts,
        }
    };
    let mut out = vec![
        mk(
            "A1-b0(T1)+b1(T2)-small-blocks",
            &[Step::Backup(t1.clone(), s.clone()), Step::Backup(t2.clone(), s.clone())],
            s.clone(),
        ),
        mk(
            "A2-b0(T1)+b1(T2,incomplete)",
            &[Step::Backup(t1.clone(), s.clone()), Step::CrashedBackup(t2.clone(), s.clone(), 11)],
            s.clone(),
        ),
        mk(
            "A3-b0(T1)+b1(T2)-default-options",
            &[Step::Backup(t1.clone(), BOpts::defaults()), Step::Backup(t2.clone(), BOpts::defaults())],
            BOpts::defaults(),
        ),
    ];
    out.push(many);
    out
}

/// What restoring a band gives: (returned ok, reported nothing, observed tree).
#[derive(Clone, Debug, PartialEq)]
pub struct RestoreOutcome {
    pub ok: bool,
    pub clean: bool,
    pub panicked: Option<String>,
    pub tree: Tree,
    pub describe: String,
    pub errors: Vec<String>,
    /// Where it was restored to (error messages may name a file by its destination path).
    pub dest: String,
}

/// Does this message name the archive path (as a whole path, not as part of a longer one), either
/// as such or as the path it is restored to? Wording and error types are the tool's business.
pub fn mentions_path(msg: &str, apath: &str, dest: &str) -> bool {
    let name_char = |c: char| c.is_alphanumeric() || "._-~".contains(c) || !c.is_ascii();
    let found = |needle: &str, check_before: bool| -> bool {
        let mut start = 0;
        while let Some(pos) = msg[start..].find(needle) {
            let i = start + pos;
            let j = i + needle.len();
            let before_ok = !check_before || msg[..i].chars().next_back().is_none_or(|c| !name_char(c) && c != '/');
            let after_ok = msg[j..].chars().next().is_none_or(|c| !name_char(c) && c != '/');
            if before_ok && after_ok {
                return true;
            }
            start = i + needle.chars().next().map(|c| c.len_utf8()).unwrap_or(1);
        }
        false
    };
    found(apath, true) || (!dest.is_empty() && found(&format!("{dest}{apath}"), false))
}

pub fn restore_outcome(dir: &Path, band: u32, scratch: &Scratch) -> RestoreOutcome {
    let dest = scratch.fresh("r");
    let o = run::do_restore(dir, &dest, &RestoreArgs::band(band), run::NOHOOK, Flavor::Current);
    let tree = tree::observe(&dest).unwrap_or_default();
    let _ = std::fs::remove_dir_all(&dest);
    RestoreOutcome {
        ok: o.is_ok(),
        clean: o.clean(),
        panicked: o.panicked.clone(),
        tree,
        describe: o.describe(),
        errors: o.monitor_errors.clone(),
        dest: dest.to_string_lossy().into_owned(),
    }
}

pub struct Baseline {
    pub restores: BTreeMap<u32, RestoreOutcome>,
}

pub fn baseline(a: &DamageArchive, scratch: &Scratch) -> Baseline {
    let dir = scratch.fresh("base");
    a.snap.store(&dir);
    let mut restores = BTreeMap::new();
    for b in a.snap.band_ids() {
        restores.insert(b, restore_outcome(&dir, b, scratch));
    }
    let _ = std::fs::remove_dir_all(&dir);
    Baseline { restores }
}

/// The cases of one archive: every file x 4 damages, plus bit flips.
pub fn cases(a: &DamageArchive, flip_files: &dyn Fn(&str) -> bool, stride: usize, offset: usize, include_header: bool) -> Vec<(String, Damage)> {
    let mut v = Vec::new();
    // An archive with hundreds of blocks (A6) is damaged only where its size matters: block files
    // that share their sub-directory with another block file, and the index hunks; no bit flips.
    let big = a.snap.files.len() > 100;
    let crowded = |f: &str| -> bool {
        f.starts_with("d/") && {
            let sub = &f[..f.rfind('/').unwrap_or(0)];
            a.snap.files.keys().filter(|g| g.starts_with(sub) && g[sub.len()..].starts_with('/')).count() >= 2
        }
    };
    for (f, bytes) in &a.snap.files {
        if f == "CONSERVE" && !include_header {
            continue;
        }
        if big && !(crowded(f) || f.contains("/i/")) {
            continue;
        }
        for d in [Damage::Delete, Damage::Truncate0, Damage::TruncateHalf, Damage::Garbage] {
            if big && f.starts_with("d/") && matches!(d, Damage::TruncateHalf | Damage::Garbage) {
                continue;
            }
            v.push((f.clone(), d));
        }
        if flip_files(f) && !big {
            let nbits = bytes.len() * 8;
            let mut bit = offset % stride.max(1);
            while bit < nbits {
                v.push((f.clone(), Damage::Flip(bit)));
                bit += stride;
            }
        }
    }
    v
}

/// Removing or emptying the last hunk of an incomplete band yields exactly the archive an
/// interrupted backup leaves one hunk earlier (an empty file is the leftover of a killed write):
/// a state produced by fault-free operations, which validate must accept and nobody can tell
/// from damage. Like the removal of a BANDTAIL, it is not counted as damage.
pub fn yields_legal_state(a: &DamageArchive, file: &str, dmg: &Damage) -> bool {
    if !matches!(dmg, Damage::Delete | Damage::Truncate0) || !file.contains("/i/") {
        return false;
    }
    let band = match file.split('/').next().and_then(fmt06::parse_band_dir) {
        Some(b) => b,
        None => return false,
    };
    if a.snap.has_tail_file(band) {
        return false;
    }
    a.snap.hunk_files(band).last().is_some_and(|(_, p)| p == file)
}

fn panic_sig(p: &str) -> String {
    let (loc, rest) = p.split_once(": ").unwrap_or(("", p));
    let file = loc.rsplit('/').next().unwrap_or(loc).split(':').next().unwrap_or("");
    let words: String = rest.chars().take(32).map(|c| if c.is_ascii_alphanumeric() { c } else { '-' }).collect();
    format!("{file}:{words}")
}

// ---------------------------------------------------------------------------------------------
// C09

pub fn c09_case(a: &DamageArchive, base: &Baseline, file: &str, dmg: &Damage, scratch: &Scratch) -> (Vec<Violation>, bool) {
    let mut v = Vec::new();
    let mut snap = a.snap.clone();
    dmg.apply(&mut snap, file);
    let dir = scratch.fresh("a");
    snap.store(&dir);
    let at = format!("{}: {} of {file}", a.name, dmg.name());
    let mut changed = Vec::new();
    for (b, before) in &base.restores {
        let after = restore_outcome(&dir, *b, scratch);
        if after.ok != before.ok || after.clean != before.clean || after.tree != before.tree || after.errors.len() != before.errors.len() {
            changed.push((*b, after.describe.clone()));
        }
    }
    if !changed.is_empty() && !yields_legal_state(a, file, dmg) {
        let full = run::do_validate(&dir, false, run::NOHOOK);
        if let Some(p) = &full.panicked {
            v.push(Violation::new(
                format!("C09:validate-panicked:{}", panic_sig(p)),
                format!("{at}: {p}"),
            ));
        } else if !full.reported_error() {
            v.push(Violation::new(
                format!("C09:full-validate-silent:{}-{}", file_class(file), dmg.class()),
                format!("{at}: versions {changed:?} no longer restore as before, but validate reports nothing"),
            ));
        }
        if *dmg == Damage::Delete {
            let quick = run::do_validate(&dir, true, run::NOHOOK);
            if let Some(p) = &quick.panicked {
                v.push(Violation::new(
                    format!("C09:quick-validate-panicked:{}", panic_sig(p)),
                    format!("{at}: {p}"),
                ));
            } else if !quick.reported_error() {
                v.push(Violation::new(
                    format!("C09:quick-validate-silent:{}-missing", file_class(file)),
                    format!("{at}: versions {changed:?} no longer restore as before, but quick validate reports nothing"),
                ));
            }
        }
    }
    let _ = std::fs::remove_dir_all(&dir);
    (v, !changed.is_empty())
}

/// Healthy side: validation of every state of the history graph whose bands all have a head.
pub fn c09_healthy(tr: &Transition) -> Vec<Violation> {
    let mut v = Vec::new();
    let s = &tr.child.snap;
    if s.band_ids().iter().any(|b| !s.has_head(*b)) {
        return v;
    }
    for quick in [false, true] {
        let o = run::do_validate(tr.dir, quick, run::NOHOOK);
        if !o.clean() {
            v.push(Violation::new(
                format!("C09:validate-reports-error-on-healthy-archive:{}", if quick { "quick" } else { "full" }),
                format!("{}: {}", tr.at(), o.describe()),
            ));
        }
    }
    v
}

pub fn replay_large(case: &Value) -> Vec<Violation> {
    let tag = case["tag"].as_str().unwrap_or("");
    let scratch = Scratch::new("replay");
    let mut v = Vec::new();
    for c in crate::c01::cases(true).into_iter().filter(|c| c.tag == tag) {
        let t = (c.tree)();
        let src = scratch.fresh("src");
        tree::materialize(&t, &src);
        let arch = scratch.fresh("a");
        run::do_create_archive(&arch);
        let _ = run::do_backup(&arch, &src, &c.opts, run::NOHOOK, Flavor::Current);
        for quick in [false, true] {
            let o = run::do_validate(&arch, quick, run::NOHOOK);
            if !o.clean() {
                v.push(Violation::new(format!("C09:validate-reports-error-on-healthy-archive:{}", if quick { "quick" } else { "full" }), format!("{tag}: {}", o.describe())));
            }
        }
    }
    v
}

pub fn run_c09(report: &Report, budget: &Budget) {
    let thorough = report.thorough();
    // Healthy side
    let depth = if thorough { 3 } else { 2 };
    let hb = crate::util::sub_budget(if thorough { 500 } else { 20 });
    let st = hist::explore(report, &hb, "C09", depth, thorough, false, thorough, &c09_healthy, None, None);
    hist::write_stats(report, &st, depth);
    // Healthy side, the inputs of unusual size: archives of the "large" cases of the C01 input sweep
    // (hundreds of blocks, thousands of hunks, blocks above 2 MiB, deep and wide trees ...)
    {
        let scratch = Scratch::new("c09large");
        let mut n = 0;
        for c in crate::c01::cases(thorough).into_iter().filter(|c| c.sweep == "large" || c.sweep == "rollover") {
            let t = (c.tree)();
            let src = scratch.fresh("src");
            tree::materialize(&t, &src);
            let arch = scratch.fresh("a");
            run::do_create_archive(&arch);
            let b = run::do_backup(&arch, &src, &c.opts, run::NOHOOK, Flavor::Current);
            if !b.clean_success() {
                continue; // C01's business
            }
            n += 1;
            for quick in [false, true] {
                let o = run::do_validate(&arch, quick, run::NOHOOK);
                if !o.clean() {
                    report.violation(
                        &Violation::new(
                            format!("C09:validate-reports-error-on-healthy-archive:{}", if quick { "quick" } else { "full" }),
                            format!("fault-free backup of {}: {}", c.tag, o.describe()),
                        ),
                        &json!({"kind": "c09-large", "tag": c.tag}),
                    );
                }
            }
            scratch.clear();
        }
        report.set("healthy_archives_of_unusual_size", json!(n));
    }
    // Damage side
    let srcs = SrcCache::new();
    let arcs = archives_for(&srcs, thorough);
    let main = Scratch::new("c09");
    let stride = if thorough { 1 } else { 8 };
    let bases: Vec<Baseline> = arcs.iter().map(|a| baseline(a, &main)).collect();
    let mut all: Vec<(usize, String, Damage)> = Vec::new();
    for (ai, a) in arcs.iter().enumerate() {
        // BANDTAIL removal is the format's legal 'incomplete' state: excluded.
        for (f, d) in cases(a, &|f| f.starts_with("d/"), stride, report.seed as usize, true) {
            if f.ends_with("/BANDTAIL") && d == Damage::Delete {
                continue;
            }
            all.push((ai, f, d));
        }
    }
    let scratches: Vec<Scratch> = (0..crate::util::n_workers()).map(|_| Scratch::new("c09w")).collect();
    let changed_n = AtomicU64::new(0);
    let done = par_for(all.len(), budget, |w, i| {
        let (ai, f, d) = &all[i];
        let _g = announce(w, || format!("C09 {} {} {f}\t{}", arcs[*ai].name, d.name(), json!({"kind": "damage", "check": "C09", "archive": ai, "file": f, "damage": d.to_json()})));
        let (vs, changed) = c09_case(&arcs[*ai], &bases[*ai], f, d, &scratches[w]);
        if changed {
            changed_n.fetch_add(1, AO::Relaxed);
        }
        for v in vs {
            report.violation(&v, &json!({"kind": "damage", "check": "C09", "archive": ai, "file": f, "damage": d.to_json()}));
        }
        report.outcome(format!("{}-{}:{}", file_class(f), d.class(), if changed { "restore-changed" } else { "restore-unchanged" }));
        if i % 211 == 7 {
            report.sample(json!({"archive": arcs[*ai].name, "file": f, "damage": d.name(), "some_version_restores_differently": changed}));
        }
        scratches[w].clear();
    });
    report.set("damage_cases", json!(done));
    report.set("damage_cases_total", json!(all.len()));
    report.set("damage_cases_changing_a_restore", json!(changed_n.load(AO::Relaxed)));
    report.set("bit_flip_stride", json!(stride));
    report.set("states", json!(st.states + done));
    report.set("transitions", json!(st.transitions + done));
    report.set("traces_validated_against_impl", json!(st.executions + done));
    report.set("exhaustive", json!(done == all.len() && st.depth_completed == depth));
    report.set("explanation", json!("healthy side: full and quick validate on every state of the history graph whose bands all have a head; damage side: every file of three archives x {delete, truncate 0, truncate half, garbage} and every (quick: every 8th) single-bit flip of every block file; whenever a version's restore outcome changes, validate must report"));
    report.assume("removal of a BANDTAIL is excluded, as the property says; so is removing or emptying the last hunk of an incomplete band, which yields exactly the state an interrupted backup leaves (indistinguishable from a fault-free history)");
}

// ---------------------------------------------------------------------------------------------
// C10

/// Which hunk file and block files each file entry of a band depends on (from the healthy archive).
fn dependencies(snap: &Snap, band: u32) -> Vec<(fmt06::REntry, String, Vec<String>)> {
    let mut v = Vec::new();
    for (n, r) in snap.band_hunks(band) {
        if let Ok(es) = r {
            for e in es {
                let blocks = e.addrs.iter().map(|a| Snap::block_path(&a.hash)).collect();
                v.push((e, fmt06::hunk_path(band, n), blocks));
            }
        }
    }
    v
}

/// The same for an interrupted version: its own entries, then what the stitching rule takes from
/// the versions below it, each with the hunk file (of that older band) it sits in.
fn stitched_dependencies(snap: &Snap, band: u32) -> Vec<(fmt06::REntry, String, Vec<String>)> {
    let mut v = dependencies(snap, band);
    let mut where_in: BTreeMap<u32, BTreeMap<String, String>> = BTreeMap::new();
    for (e, from) in fmt06::ref_stitch(snap, band) {
        if from == band {
            continue;
        }
        let idx = where_in.entry(from).or_insert_with(|| {
            let mut m = BTreeMap::new();
            for (n, r) in snap.band_hunks(from) {
                if let Ok(es) = r {
                    for x in es {
                        m.insert(x.apath, fmt06::hunk_path(from, n));
                    }
                }
            }
            m
        });
        if let Some(h) = idx.get(&e.apath).cloned() {
            let blocks = e.addrs.iter().map(|a| Snap::block_path(&a.hash)).collect();
            v.push((e, h, blocks));
        }
    }
    v
}

pub fn c10_case(a: &DamageArchive, base: &Baseline, file: &str, dmg: &Damage, srcs: &SrcCache, scratch: &Scratch) -> Vec<Violation> {
    let mut v = Vec::new();
    let mut snap = a.snap.clone();
    dmg.apply(&mut snap, file);
    let dir = scratch.fresh("a");
    snap.store(&dir);
    let at = format!("{}: {} of {file}", a.name, dmg.name());
    let site = format!("{}-{}", file_class(file), dmg.class());
    let mut crash = |op: &str, o: &OpOut, v: &mut Vec<Violation>| {
        if let Some(p) = &o.panicked {
            v.push(Violation::new(
                format!("C10:{op}-panicked:{}", panic_sig(p)),
                format!("{at}: {op}: {p}"),
            ));
        }
    };
    // list versions
    let (vo, _) = run::do_versions(&dir);
    crash("versions", &vo, &mut v);
    // each band: list, restore
    for b in a.snap.band_ids() {
        let (lo, _) = run::do_list(&dir, Sel::Band(b), "/", &[], run::NOHOOK);
        crash("list", &lo, &mut v);
        let ro = restore_outcome(&dir, b, scratch);
        if let Some(p) = &ro.panicked {
            v.push(Violation::new(
                format!("C10:restore-panicked:{}", panic_sig(p)),
                format!("{at}: restore of b{b:04}: {p}"),
            ));
            continue;
        }
        // Does the version still open? (independent judgement: its BANDHEAD is intact JSON)
        let head = snap.files.get(&format!("{}/BANDHEAD", band_dir(b)));
        let opens = head.is_some_and(|h| serde_json::from_slice::<Value>(h).is_ok_and(|j| j.is_object()));
        if !opens || !ro.ok {
            continue;
        }
        let before = &base.restores[&b];
        // own entries of this band and what they depend on
        let damaged_hunk_still_decodes = file.contains("/i/")
            && file.starts_with(&band_dir(b))
            && snap.files.get(file).is_some_and(|bytes| fmt06::decode_hunk(bytes).is_ok());
        // (an interrupted version also consists of what it takes over from the versions below it;
        // that part is judged when the damaged file is an index hunk or a block - a lower band
        // whose head or tail is damaged may legitimately not be read at all)
        // (... and not when it is a flipped hunk that still decodes: paths altered in it move the
        // point where the older version is picked up, and the result is what the stitching rule
        // gives for the hunk as it now reads)
        let any_hunk_still_decodes =
            file.contains("/i/") && snap.files.get(file).is_some_and(|bytes| fmt06::decode_hunk(bytes).is_ok());
        let deps = if a.complete.contains(&b) || !matches!(file_class(file), "index-hunk" | "block") || any_hunk_still_decodes {
            dependencies(&a.snap, b)
        } else {
            stitched_dependencies(&a.snap, b)
        };
        for (e, hunk, blocks) in deps {
            let key = &e.apath[1..];
            let untouched = hunk != file && !blocks.iter().any(|p| p == file);
            let want = match before.tree.get(key) {
                Some(n) => n,
                None => continue,
            };
            let got = ro.tree.get(key);
            if untouched {
                if e.kind != "File" {
                    continue; // the statement speaks about files
                }
                // A file also needs its parent directories; if a parent's entry was in the damaged
                // hunk the file cannot be judged as untouched.
                let mut parent_lost = false;
                let mut cur = key;
                while let Some(p) = tree::parent_of(cur) {
                    if !p.is_empty() && !ro.tree.contains_key(p) {
                        parent_lost = true;
                    }
                    cur = p;
                }
                let same = got.is_some_and(|g| g == want);
                if !same && !(parent_lost && !ro.clean) {
                    v.push(Violation::new(
                        format!("C10:untouched-file-not-restored-exactly:{site}"),
                        format!("{at}: b{b:04} {} expected {} got {:?} (restore {})", e.apath, want.describe(), got.map(|g| g.describe()), ro.describe),
                    ));
                }
            } else if !damaged_hunk_still_decodes {
                // hunk or block missing / undecodable by the independent reader?
                let hunk_bad = hunk == file
                    && snap.files.get(&hunk).is_none_or(|bytes| fmt06::decode_hunk(bytes).is_err());
                let block_bad = blocks.iter().any(|p| {
                    p == file && {
                        let name = p.rsplit('/').next().unwrap();
                        match snap.block_content(name) {
                            Err(_) => true,
                            Ok(c) => fmt06::blake2b512_hex(&c) != name,
                        }
                    }
                });
                // A damaged block: the files it holds are known, so each one that comes out absent
                // or altered must be reported itself (one report for another file of the same
                // block does not cover it).
                if block_bad && got != Some(want) && e.kind == "File" {
                    let named = ro.errors.iter().any(|m| mentions_path(m, &e.apath, &ro.dest));
                    if !named {
                        v.push(Violation::new(
                            format!("C10:altered-file-not-reported:{site}"),
                            format!(
                                "{at}: b{b:04} {} is {} in the restore and no reported error names it (errors: {:?})",
                                e.apath,
                                if got.is_none() { "absent" } else { "different" },
                                ro.errors.iter().map(|m| m.chars().take(90).collect::<String>()).collect::<Vec<_>>()
                            ),
                        ));
                    }
                }
                if (hunk_bad || block_bad) && got != Some(want) && ro.clean && !yields_legal_state(a, file, dmg) {
                    v.push(Violation::new(
                        format!("C10:lost-file-not-reported:{site}"),
                        format!("{at}: b{b:04} {} is {} in the restore but no error was reported", e.apath, if got.is_none() { "absent" } else { "different" }),
                    ));
                }
            }
        }
    }
    for quick in [false, true] {
        let o = run::do_validate(&dir, quick, run::NOHOOK);
        crash(if quick { "quick-validate" } else { "validate" }, &o, &mut v);
    }
    // a new backup
    let out = run::do_backup(&dir, &srcs.dir_for(&a.src), &a.opts, run::NOHOOK, Flavor::Current);
    if let Some(p) = &out.panicked {
        v.push(Violation::new(
            format!("C10:backup-panicked:{}", panic_sig(p)),
            format!("{at}: backup: {p}"),
        ));
    } else if matches!(dmg, Damage::Delete | Damage::Truncate0) {
        match out.ok_stats() {
            Some(s) if s.errors == 0 => {
                let newest = Snap::load(&dir).band_ids().last().cloned().unwrap_or(0);
                let diffs = restore_exact(&dir, newest, &a.src, scratch, Cmp::FULL);
                if !diffs.is_empty() {
                    v.push(Violation::new(
                        format!("C10:backup-after-damage-not-exact:{site}"),
                        format!("{at}: b{newest:04}: {diffs:?}"),
                    ));
                }
            }
            _ => v.push(Violation::new(
                format!("C10:backup-after-damage-fails:{site}"),
                format!("{at}: {}", out.describe()),
            )),
        }
    }
    let _ = std::fs::remove_dir_all(&dir);
    let _ = NodeKind::Dir;
    v
}

pub fn run_c10(report: &Report, budget: &Budget) {
    let thorough = report.thorough();
    let srcs = SrcCache::new();
    let arcs = archives_for(&srcs, thorough);
    let main = Scratch::new("c10");
    let stride = if thorough { 1 } else { 8 };
    let bases: Vec<Baseline> = arcs.iter().map(|a| baseline(a, &main)).collect();
    let mut all: Vec<(usize, String, Damage)> = Vec::new();
    for (ai, a) in arcs.iter().enumerate() {
        for (f, d) in cases(a, &|f| f != "CONSERVE", stride, report.seed as usize, false) {
            all.push((ai, f, d));
        }
    }
    // whole-file damages first, then flips: a time cap cuts only the flips
    all.sort_by_key(|(ai, _, d)| (matches!(d, Damage::Flip(_)), *ai));
    let scratches: Vec<Scratch> = (0..crate::util::n_workers()).map(|_| Scratch::new("c10w")).collect();
    let states: Mutex<BTreeSet<u64>> = Mutex::new(BTreeSet::new());
    let done = par_for(all.len(), budget, |w, i| {
        let (ai, f, d) = &all[i];
        let case = json!({"kind": "damage", "check": "C10", "archive": ai, "file": f, "damage": d.to_json()});
        let _g = announce(w, || format!("C10 {} {} {f}\t{case}", arcs[*ai].name, d.name()));
        for v in c10_case(&arcs[*ai], &bases[*ai], f, d, &srcs, &scratches[w]) {
            report.violation(&v, &case);
        }
        states.lock().unwrap().insert(h64(&(ai, f, d.name())));
        report.outcome(format!("{}-{}", file_class(f), d.class()));
        if i % 401 == 11 {
            report.sample(json!({"archive": arcs[*ai].name, "file": f, "damage": d.name(), "operations": "versions; list+restore of every band; validate full+quick; backup; restore of the new band"}));
        }
        scratches[w].clear();
    });
    report.set("evaluations", json!(done));
    report.set("cases_total", json!(all.len()));
    report.set("distinct_nontrivial", json!(states.lock().unwrap().len()));
    report.set("bit_flip_stride", json!(stride));
    report.set("exhaustive", json!(done == all.len() && stride == 1));
    report.set("rule", json!("three archives (small blocks with shared and combined blocks; complete + incomplete band; default options): every file except the archive header x {delete, truncate 0, truncate half, garbage} and every (quick: every 8th, offset by the seed) single-bit flip of every file; each damaged archive is run through versions, list and restore of every band, validate full and quick, a new backup and its restore. distinct_nontrivial = distinct (archive, file, damage) cases, each of which alters the stored bytes"));
    report.assume("hangs are caught by a watchdog and reported as a violation (operation-does-not-terminate)");
    report.assume("a flipped hunk that still decodes is judged only on no-crash and on the untouched files");
    report.assume("an interrupted version is judged on its own entries and, when the damaged file is a block or an index hunk that no longer decodes, also on the entries it takes over from the versions below it (a damaged head or tail below may stop those versions from being read at all; a flipped hunk that still decodes moves the pick-up point legitimately)");
    report.assume("removing or emptying the last hunk of an incomplete band yields the state an interrupted backup leaves; loss of its entries cannot be reported by anyone and is not demanded");
    report.assume("an untouched file whose parent directory entry sat in the damaged hunk must restore exactly or the restore must report an error");
}

pub fn replay(case: &Value) -> Vec<Violation> {
    let srcs = SrcCache::new();
    let arcs = archives_for(&srcs, true);
    let scratch = Scratch::new("replay");
    let ai = case["archive"].as_u64().unwrap() as usize;
    let base = baseline(&arcs[ai], &scratch);
    let f = case["file"].as_str().unwrap();
    let d = Damage::from_json(&case["damage"]);
    if case["check"] == json!("C09") {
        c09_case(&arcs[ai], &base, f, &d, &scratch).0
    } else {
        c10_case(&arcs[ai], &base, f, &d, &srcs, &scratch)
    }
}

pub fn replay_hist(case: &Value) -> Vec<Violation> {
    hist::replay(case, &c09_healthy, None)
}

/// Debug aid: print how the damaged file decodes and what listing the band gives.
pub fn debug(case: &Value) {
    let srcs = SrcCache::new();
    let arcs = archives_for(&srcs, true);
    let scratch = Scratch::new("dbg");
    let ai = case["archive"].as_u64().unwrap() as usize;
    let f = case["file"].as_str().unwrap();
    let d = Damage::from_json(&case["damage"]);
    let mut snap = arcs[ai].snap.clone();
    println!("before: {:?}", fmt06::decode_hunk(&snap.files[f]).map(|v| v.iter().map(|e| e.raw.to_string()).collect::<Vec<_>>()));
    d.apply(&mut snap, f);
    println!("after: {:?}", snap.files.get(f).map(|b| fmt06::decode_hunk(b).map(|v| v.iter().map(|e| e.raw.to_string()).collect::<Vec<_>>())));
    let dir = scratch.fresh("a");
    snap.store(&dir);
    for b in snap.band_ids() {
        let (o, l) = run::do_list(&dir, Sel::Band(b), "/", &[], run::NOHOOK);
        println!("list b{b}: {} -> {:?}", o.describe(), l.iter().map(|e| (&e.apath, &e.kind)).collect::<Vec<_>>());
    }
}
