//! C04 (E2 fault enumeration): storage errors never make the archive record wrong content or a
//! false success.

use std::collections::BTreeSet;
use std::sync::atomic::{AtomicUsize, Ordering};
use std::sync::Mutex;

use conserve::transport::ErrorKind;
use serde_json::{json, Value};

use crate::c03::{crash_site, reference_trace};
use crate::common::{self, build_scenario, restore_exact, Scenario, SrcCache};
use crate::fmt06::Snap;
use crate::hook::{kind_name, Icpt, OpRec, Plan, FAULT_KINDS};
use crate::report::{Report, Violation};
use crate::run::{self, BOpts, Flavor};
use crate::tree::Cmp;
use crate::util::{announce, h64, par_for, Budget, Scratch};

pub struct FaultResult {
    pub viol: Vec<Violation>,
    /// Format violations (C13 rider): whatever was written under faults conforms to the format.
    pub c13: Vec<Violation>,
    pub machinery: Option<String>,
    pub log: Vec<OpRec>,
    pub state_hash: u64,
    pub outcome: String,
}

fn panic_site(msg: &str) -> String {
    // "src/index/mod.rs:142: hunks available: ..." -> file + first words of the message,
    // without line numbers (they move with unrelated edits).
    let (loc, rest) = msg.split_once(": ").unwrap_or(("", msg));
    let file = loc.rsplit('/').next().unwrap_or(loc).split(':').next().unwrap_or("");
    let words: String = rest
        .chars()
        .take(40)
        .map(|c| if c.is_ascii_alphanumeric() { c } else { '-' })
        .collect();
    format!("{file}:{words}")
}

pub fn scenarios(srcs: &SrcCache, all_standard: bool) -> Vec<Scenario> {
    let std = common::standard_scenarios(srcs);
    let mut v: Vec<Scenario> = std
        .into_iter()
        .filter(|s| {
            all_standard
                || s.name.starts_with("S1")
                || s.name.starts_with("S2")
                || s.name.starts_with("S4")
                || s.name.starts_with("S5")
        })
        .collect();
    // Small files spread over several combined blocks, with a hunk size large enough that a failed
    // combined-block flush is followed by another flush of the same hunk group.
    v.push(build_scenario(
        "S9-empty+six-small-files",
        &[],
        common::tree_small_files(),
        BOpts::new(100, 8, 6),
        srcs,
    ));
    // Duplicate content inside one run, so that a failed block store is followed by a store of
    // the same content.
    v.push(build_scenario(
        "S11-empty+duplicate-contents",
        &[],
        common::tree_dups(),
        BOpts::new(100, 16, 6),
        srcs,
    ));
    v.push(build_scenario(
        "S12-empty+duplicate-contents-small-blocks",
        &[],
        common::tree_dups(),
        BOpts::new(3, 8, 6),
        srcs,
    ));
    v.push(build_scenario(
        "S10-b0(six-small)+six-small-changed",
        &[common::Step::Backup(common::tree_small_files(), BOpts::new(100, 8, 6))],
        {
            let mut t = common::tree_small_files();
            for (i, name) in ["b", "c", "e"].iter().enumerate() {
                t.insert(
                    name.to_string(),
                    crate::tree::Node::file(&[b'p' + i as u8; 4], crate::tree::T0 + 60 + i as i64),
                );
            }
            t
        },
        BOpts::new(3, 8, 6),
        srcs,
    ));
    v
}

/// Run the scenario's backup under a fault plan and judge the result.
pub fn run_fault_case(
    scn: &Scenario,
    reference: &[OpRec],
    plan: &Plan,
    srcs: &SrcCache,
    scratch: &Scratch,
) -> FaultResult {
    let dir = scratch.fresh("a");
    scn.pre.store(&dir);
    let src_dir = srcs.dir_for(&scn.src);
    let icpt = Icpt::new(&dir, plan.clone());
    let out = run::do_backup(&dir, &src_dir, &scn.opts, Some(&icpt), Flavor::Current);
    let log = icpt.take_log();
    let mut res = FaultResult {
        viol: Vec::new(),
        c13: Vec::new(),
        machinery: None,
        log: Vec::new(),
        state_hash: 0,
        outcome: String::new(),
    };
    // The prefix up to the first deviation must reproduce the reference trace.
    let first = plan
        .fail
        .iter()
        .map(|f| f.0)
        .max()
        .or(plan.fail_from.map(|f| f.0))
        .unwrap_or(usize::MAX);
    for (i, r) in log.iter().enumerate() {
        if i > first {
            break;
        }
        if i >= reference.len() || reference[i].verb != r.verb || reference[i].path != r.path {
            res.machinery = Some(format!(
                "{}: prefix diverges at op {i}: {} vs {}",
                scn.name,
                r.brief(),
                reference.get(i).map(|t| t.brief()).unwrap_or_default()
            ));
            return res;
        }
    }
    let faulted: Vec<&OpRec> = log.iter().filter(|r| r.injected.is_some()).collect();
    let site = faulted
        .iter()
        .map(|r| crash_site(r, false))
        .collect::<Vec<_>>()
        .join("+");
    let site = if plan.fail_from.is_some() {
        format!("outage-from-{}", faulted.first().map(|r| crash_site(r, false)).unwrap_or_default())
    } else {
        site
    };
    let at = format!("{} with {} [{}]", scn.name, plan.describe(), faulted.iter().map(|r| r.brief()).collect::<Vec<_>>().join(", "));
    let snap = Snap::load(&dir);
    res.state_hash = h64(&snap.canonical());
    let new = scn.next_band();

    // No crash of the process
    if let Some(p) = &out.panicked {
        res.viol.push(Violation::new(
            format!("C04:panic:{}", panic_site(p)),
            format!("{at}: backup panicked: {p}"),
        ));
    }
    // Earlier versions untouched: every file that existed is byte-identical
    for (f, bytes) in &scn.pre.files {
        if snap.files.get(f) != Some(bytes) {
            res.viol.push(Violation::new(
                format!("C04:existing-file-changed:{site}"),
                format!("{at}: {f} was altered or removed"),
            ));
            break;
        }
    }
    for b in &scn.complete {
        let diffs = restore_exact(&dir, *b, &scn.band_src[b], scratch, Cmp::FULL);
        if !diffs.is_empty() {
            res.viol.push(Violation::new(
                format!("C04:previous-version-changed:{site}"),
                format!("{at}: b{b:04}: {diffs:?}"),
            ));
        }
    }
    // Every entry recorded in the new band matches the source, judged by the independent reader
    let mut recorded = 0;
    for e in snap.band_entries(new) {
        recorded += 1;
        match common::node_for(&scn.src, &e.apath) {
            None => res.viol.push(Violation::new(
                format!("C04:entry-for-path-not-in-source:{site}"),
                format!("{at}: b{new:04} records {} which the source does not have", e.apath),
            )),
            Some(n) => {
                if let Err(why) = common::entry_matches_node(&snap, &e, n) {
                    let sig = if why.contains("recorded content") {
                        "wrong-content-recorded"
                    } else if why.contains("block") || why.contains("address") {
                        "dangling-or-short-reference"
                    } else {
                        "wrong-entry-recorded"
                    };
                    res.viol.push(Violation::new(
                        format!("C04:{sig}:{site}"),
                        format!("{at}: b{new:04} {}: {why}", e.apath),
                    ));
                }
            }
        }
    }
    // Complete success means the version restores the whole source exactly; a complete band that
    // lacks or alters anything must come with a reported error.
    let has_tail = snap.has_tail_file(new);
    let reported = !out.clean_success();
    if out.clean_success() && !has_tail {
        res.viol.push(Violation::new(
            format!("C04:success-without-complete-band:{site}"),
            format!("{at}: backup reported complete success but b{new:04} has no tail"),
        ));
    }
    if has_tail && snap.has_head(new) {
        let diffs = restore_exact(&dir, new, &scn.src, scratch, Cmp::FULL);
        if !diffs.is_empty() && !reported {
            res.viol.push(Violation::new(
                format!("C04:false-success:{site}"),
                format!("{at}: backup reported complete success ({}) but b{new:04} does not restore the source: {diffs:?}", out.describe()),
            ));
        }
    }
    res.outcome = format!(
        "{} tail={has_tail} recorded={recorded}",
        if out.panicked.is_some() {
            "panic"
        } else if out.clean_success() {
            "clean-success"
        } else if out.ok_stats().is_some() {
            "ok-with-errors"
        } else {
            "err"
        }
    );
    res.c13 = crate::c13::check_snapshot(
        &snap,
        Some(&{
            let mut m = scn.band_src.clone();
            m.insert(new, scn.src.clone());
            m
        }),
        &at,
    );
    res.log = log;
    let _ = std::fs::remove_dir_all(&dir);
    res
}

/// C13 rider: every single-fault and outage plan of every scenario; the resulting archive is
/// judged by the independent format reader.
pub fn run_format_rider(report: &Report, budget: &Budget) -> (usize, usize) {
    let srcs = SrcCache::new();
    let scenarios = scenarios(&srcs, true);
    let main_scratch = Scratch::new("c13f");
    let mut cases: Vec<(usize, Plan)> = Vec::new();
    let mut traces = Vec::new();
    for (si, scn) in scenarios.iter().enumerate() {
        let (trace, _) = reference_trace(scn, &srcs, &main_scratch);
        for r in &trace {
            // the error kind does not matter to the format; two kinds keep both the
            // "treated as absent" and the "hard error" paths
            for kind in [ErrorKind::NotFound, ErrorKind::Other] {
                cases.push((si, Plan::fail1(r.idx, kind)));
            }
            cases.push((
                si,
                Plan {
                    fail_from: Some((r.idx, ErrorKind::Other)),
                    ..Default::default()
                },
            ));
        }
        traces.push(trace);
    }
    let scratches: Vec<Scratch> = (0..crate::util::n_workers()).map(|_| Scratch::new("c13fw")).collect();
    let done = par_for(cases.len(), budget, |w, i| {
        let (si, plan) = &cases[i];
        let scn = &scenarios[*si];
        let _g = announce(w, || format!("C13 fault {} {}", scn.name, plan.describe()));
        let r = run_fault_case(scn, &traces[*si], plan, &srcs, &scratches[w]);
        if let Some(m) = r.machinery {
            report.machinery_error(m);
            return;
        }
        for v in &r.c13 {
            report.violation(v, &case_json(scn, plan));
        }
        if i % 131 == 17 {
            report.sample(json!({"scenario": scn.name, "fault": plan.describe(), "then": "independent reader judges the archive"}));
        }
        scratches[w].clear();
    });
    report.set("fault_cases", json!(done));
    report.set("fault_cases_total", json!(cases.len()));
    (done, cases.len())
}

pub fn case_json(scn: &Scenario, plan: &Plan) -> Value {
    json!({"kind": "fault", "scenario": scn.to_json(), "plan": plan.to_json()})
}

pub fn run(report: &Report, budget: &Budget) {
    let srcs = SrcCache::new();
    let scenarios = scenarios(&srcs, report.thorough());
    let main_scratch = Scratch::new("c04");
    let thorough = report.thorough();
    // Level-1 work list
    let mut cases: Vec<(usize, Plan)> = Vec::new();
    let mut traces = Vec::new();
    let mut finals = Vec::new();
    for (si, scn) in scenarios.iter().enumerate() {
        let (trace, fin) = reference_trace(scn, &srcs, &main_scratch);
        // Bound 0: the fault-free run must satisfy the oracle too.
        cases.push((si, Plan::none()));
        for r in &trace {
            for kind in FAULT_KINDS {
                cases.push((si, Plan::fail1(r.idx, kind)));
            }
            cases.push((
                si,
                Plan {
                    fail_from: Some((r.idx, ErrorKind::Other)),
                    ..Default::default()
                },
            ));
        }
        finals.push(h64(&fin.canonical()));
        traces.push(trace);
    }
    report.set("scenarios", json!(scenarios.len()));
    report.set("trace_lengths", json!(traces.iter().map(|t| t.len()).collect::<Vec<_>>()));
    let states = Mutex::new(BTreeSet::new());
    let evals = AtomicUsize::new(0);
    let level2 = AtomicUsize::new(0);
    let level3 = AtomicUsize::new(0);
    let scratches: Vec<Scratch> = (0..crate::util::n_workers()).map(|_| Scratch::new("c04w")).collect();
    let judge = |w: usize, scn: &Scenario, si: usize, reference: &[OpRec], plan: &Plan| -> Option<Vec<OpRec>> {
        let r = run_fault_case(scn, reference, plan, &srcs, &scratches[w]);
        evals.fetch_add(1, Ordering::SeqCst);
        if let Some(m) = r.machinery {
            report.machinery_error(m);
            return None;
        }
        if !r.viol.is_empty() {
            let r2 = run_fault_case(scn, reference, plan, &srcs, &scratches[w]);
            let s1: Vec<_> = r.viol.iter().map(|v| v.signature.clone()).collect();
            let s2: Vec<_> = r2.viol.iter().map(|v| v.signature.clone()).collect();
            if s1 != s2 {
                report.machinery_error(format!("C04 case not reproducible: {s1:?} vs {s2:?}"));
                return None;
            }
        }
        for v in &r.viol {
            report.violation(v, &case_json(scn, plan));
        }
        report.outcome(r.outcome.clone());
        if r.state_hash != finals[si] {
            states.lock().unwrap().insert((si, r.state_hash));
        }
        scratches[w].clear();
        Some(r.log)
    };
    let done = par_for(cases.len(), budget, |w, i| {
        let (si, plan) = &cases[i];
        let scn = &scenarios[*si];
        let _g = announce(w, || format!("C04 {} {}", scn.name, plan.describe()));
        let log = match judge(w, scn, *si, &traces[*si], plan) {
            Some(l) => l,
            None => return,
        };
        if i % 97 == 3 {
            report.sample(json!({"scenario": scn.name, "plan": plan.describe(), "trace_after_fault": log.iter().filter(|r| r.injected.is_some()).map(|r| r.brief()).collect::<Vec<_>>()}));
        }
        // Deviation bound 2: a second fault at every later operation of the diverged trace.
        if let [(k, kind1)] = plan.fail[..] {
            let kinds: &[ErrorKind] = if thorough { &FAULT_KINDS } else { &[ErrorKind::Other] };
            for r in log.iter().filter(|r| r.idx > k) {
                for kind2 in kinds {
                    if budget.exceeded() {
                        return;
                    }
                    let p2 = Plan {
                        fail: vec![(k, kind1), (r.idx, *kind2)],
                        ..Default::default()
                    };
                    // The reference for the divergence check is the level-1 trace.
                    let log2 = judge(w, scn, *si, &log, &p2);
                    level2.fetch_add(1, Ordering::SeqCst);
                    // Deviation bound 3 (thorough): a third fault at every later operation.
                    if let (true, Some(log2)) = (thorough, log2) {
                        for r3 in log2.iter().filter(|x| x.idx > r.idx) {
                            if budget.exceeded() {
                                return;
                            }
                            let p3 = Plan {
                                fail: vec![(k, kind1), (r.idx, *kind2), (r3.idx, ErrorKind::Other)],
                                ..Default::default()
                            };
                            judge(w, scn, *si, &log2, &p3);
                            level3.fetch_add(1, Ordering::SeqCst);
                        }
                    }
                }
            }
        }
    });
    report.set("evaluations", json!(evals.load(Ordering::SeqCst)));
    report.set("single_fault_and_outage_plans", json!(cases.len()));
    report.set("single_fault_plans_completed", json!(done));
    report.set("fault_pairs_executed", json!(level2.load(Ordering::SeqCst)));
    report.set("fault_triples_executed", json!(level3.load(Ordering::SeqCst)));
    report.set("distinct_nontrivial", json!(states.lock().unwrap().len()));
    report.set("deviation_bound_completed", json!(if done == cases.len() && !budget.was_hit() { if thorough { 3 } else { 2 } } else if done == cases.len() { 1 } else { 0 }));
    report.set("exhaustive", json!(done == cases.len() && !budget.was_hit()));
    report.set("rule", json!(format!("bound 0: fault-free run; bound 1: every operation k of every scenario's storage trace (reads included) failing with each of {:?}, plus a storage outage from every k on; bound 2: for every bound-1 run{} a second fault at every later operation of the diverged trace{}. distinct_nontrivial = distinct canonical end states differing from the fault-free end state", FAULT_KINDS.map(kind_name), "", if thorough { " with each kind, and a third (kind Other) after every pair" } else { " with kind Other" })));
    report.assume("faults are injected at the transport seam (the operation does not touch storage and returns the error kind)");
    report.assume("the 'random multi-fault sequences' of the quantifier are replaced by all fault pairs and all outage suffixes (exhaustive, no sampling)");
}

pub fn replay(case: &Value) -> Vec<Violation> {
    let scn = Scenario::from_json(&case["scenario"]);
    let plan = Plan::from_json(&case["plan"]);
    let srcs = SrcCache::new();
    let scratch = Scratch::new("replay");
    // For replays the reference is the run itself up to the first fault: use the fault-free trace
    // for single faults, and accept level-2 plans by re-deriving the level-1 trace.
    let (trace, _) = reference_trace(&scn, &srcs, &scratch);
    let mut reference = trace;
    for n in 1..plan.fail.len() {
        let p = Plan {
            fail: plan.fail[..n].to_vec(),
            ..Default::default()
        };
        reference = run_fault_case(&scn, &reference, &p, &srcs, &scratch).log;
    }
    let r = run_fault_case(&scn, &reference, &plan, &srcs, &scratch);
    if let Some(m) = r.machinery {
        eprintln!("machinery: {m}");
    }
    let mut v = r.viol;
    v.extend(r.c13);
    v
}
