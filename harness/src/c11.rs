//! C11: one total order for paths, shared by the source walk and every index (E1 inputs).

use std::cmp::Ordering;
use std::sync::atomic::{AtomicU64, AtomicUsize, Ordering as AO};

use conserve::monitor::test::TestMonitor;
use conserve::{Apath, EntryTrait, Exclude, SourceTree};
use serde_json::{json, Value};

use crate::common::SrcCache;
use crate::fmt06::{apath_cmp, apath_under, apath_valid, Snap};
use crate::gen::{self, K};
use crate::report::{Report, Violation};
use crate::run::{self, BOpts, Flavor};
use crate::util::{announce, par_for, Budget, Scratch};

const ALPHABET: [&str; 10] = ["", ".", "..", "a", "a-b", "a.b", "a b", "ab", "é", "a\0"];
const VALID: [&str; 6] = ["a", "a-b", "a.b", "a b", "ab", "é"];

fn seqs(alpha: &[&str], max_len: usize) -> Vec<Vec<String>> {
    let mut out: Vec<Vec<String>> = Vec::new();
    let mut frontier: Vec<Vec<String>> = vec![Vec::new()];
    for _ in 0..max_len {
        let mut next = Vec::new();
        for s in &frontier {
            for a in alpha {
                let mut n = s.clone();
                n.push(a.to_string());
                next.push(n);
            }
        }
        out.extend(next.iter().cloned());
        frontier = next;
    }
    out
}

fn impl_cmp(a: &str, b: &str) -> Result<Ordering, String> {
    let _subject = run::SubjectGuard::enter();
    std::panic::catch_unwind(|| Apath::from(a).cmp(&Apath::from(b))).map_err(|_| run::take_last_panic().unwrap_or_default())
}

pub fn walk_order_case(tree: &crate::tree::Tree, hunk: usize, srcs: &SrcCache, scratch: &Scratch) -> Vec<Violation> {
    let mut v = Vec::new();
    let _ = srcs;
    let dir = scratch.fresh("src");
    crate::tree::materialize(tree, &dir);
    let brief = crate::tree::tree_brief(tree);
    let mut expected: Vec<String> = tree.keys().map(|k| crate::tree::apath_of(k)).collect();
    expected.sort_by(|a, b| apath_cmp(a, b));
    // Source walk
    let subject = run::SubjectGuard::enter();
    let walked: Result<Vec<String>, String> = std::panic::catch_unwind(|| {
        let st = SourceTree::open(&dir).map_err(|e| e.to_string())?;
        let it = st
            .iter_entries(Apath::root(), Exclude::nothing(), TestMonitor::arc())
            .map_err(|e| e.to_string())?;
        Ok(it.map(|e| e.apath().to_string()).collect())
    })
    .unwrap_or_else(|_| Err(format!("panic: {}", run::take_last_panic().unwrap_or_default())));
    drop(subject);
    match walked {
        Err(e) => v.push(Violation::new("C11:source-walk-failed", format!("tree {brief}: {e}"))),
        Ok(w) => {
            if w != expected {
                v.push(Violation::new(
                    "C11:source-walk-order",
                    format!("tree {brief}: walk gives {w:?}, documented order is {expected:?}"),
                ));
            }
        }
    }
    // Index written by a backup: once with everything in large blocks, once with a block size that
    // every small file fills exactly (the combiner then flushes by itself in the middle of a hunk
    // group, and directories and symlinks, which bypass it, fill the hunk).
    let arch = scratch.fresh("a");
    for (hk, block) in [(hunk, 1usize << 20), (if hunk == 1 { 3 } else { 2 }, 3)] {
        let _ = std::fs::remove_dir_all(&arch);
        run::do_create_archive(&arch);
        let out = run::do_backup(&arch, &dir, &BOpts::new(hk, block, 1 << 20), run::NOHOOK, Flavor::Current);
        if out.ok_stats().is_none() {
            v.push(Violation::new(
                "C11:backup-failed",
                format!("tree {brief} hunk={hk} block={block}: {}", out.describe()),
            ));
        } else {
            let snap = Snap::load(&arch);
            let idx: Vec<String> = snap.band_entries(0).into_iter().map(|e| e.apath).collect();
            if idx != expected {
                v.push(Violation::new(
                    "C11:index-order",
                    format!("tree {brief} hunk={hk} block={block}: index holds {idx:?}, documented order is {expected:?}"),
                ));
            }
            // Listing
            let (lo, listed) = run::do_list(&arch, run::Sel::Band(0), "/", &[], run::NOHOOK);
            let l: Vec<String> = listed.into_iter().map(|e| e.apath).collect();
            if !lo.is_ok() || l != expected {
                v.push(Violation::new(
                    "C11:listing-order",
                    format!("tree {brief} hunk={hk} block={block}: listing gives {l:?} ({})", lo.describe()),
                ));
            }
        }
    }
    let _ = std::fs::remove_dir_all(&arch);
    // "Every listing": also the stitched listing of an interrupted version. The first version is
    // written as one hunk, the second (same tree) with small hunks and killed after each of them,
    // so the listing resumes inside the older hunk at every possible path.
    if tree.len() >= 3 {
        let arch = scratch.fresh("a");
        run::do_create_archive(&arch);
        let o = run::do_backup(&arch, &dir, &BOpts::new(1000, 1 << 20, 1 << 20), run::NOHOOK, Flavor::Current);
        if o.ok_stats().is_some() {
            let base = Snap::load(&arch);
            let small = BOpts::new(if hunk == 2 { 2 } else { 1 }, 1 << 20, 1 << 20);
            let probe = scratch.fresh("p");
            base.store(&probe);
            let icpt = crate::hook::Icpt::new(&probe, crate::hook::Plan::none());
            let _ = run::do_backup(&probe, &dir, &small, Some(&icpt), Flavor::Current);
            let trace = icpt.take_log();
            let mut after_hunk = false;
            for r in trace.iter().filter(|r| r.is_mutating()) {
                if after_hunk {
                    let a2 = scratch.fresh("a2");
                    base.store(&a2);
                    let ic = crate::hook::Icpt::new(&a2, crate::hook::Plan::crash(r.idx, false));
                    let oc = run::do_backup(&a2, &dir, &small, Some(&ic), Flavor::Current);
                    if oc.crashed {
                        let (lo, listed) = run::do_list(&a2, run::Sel::Band(1), "/", &[], run::NOHOOK);
                        let l: Vec<String> = listed.into_iter().map(|e| e.apath).collect();
                        if !lo.is_ok() || l != expected {
                            v.push(Violation::new(
                                "C11:stitched-listing-order",
                                format!(
                                    "tree {brief}: second version (hunks of {}) killed before op {}: listing gives {l:?}, documented order of the same paths is {expected:?} ({})",
                                    small.hunk,
                                    r.idx,
                                    lo.describe()
                                ),
                            ));
                        }
                        // the same listing taken by subtree: the part of the documented order
                        // under each directory (the first three), nothing twice, nothing moved
                        for (k, n) in tree.iter().filter(|(k, n)| !k.is_empty() && n.is_dir()).take(3) {
                            let _ = n;
                            let s = crate::tree::apath_of(k);
                            let want: Vec<&String> = expected
                                .iter()
                                .filter(|p| **p == s || (p.starts_with(&s) && p.as_bytes().get(s.len()) == Some(&b'/')))
                                .collect();
                            let (lo, listed) = run::do_list(&a2, run::Sel::Band(1), &s, &[], run::NOHOOK);
                            let l: Vec<String> = listed.into_iter().map(|e| e.apath).collect();
                            if !lo.is_ok() || l.iter().ne(want.iter().copied()) {
                                v.push(Violation::new(
                                    "C11:stitched-subtree-listing-order",
                                    format!(
                                        "tree {brief}: second version (hunks of {}) killed before op {}: listing under {s} gives {l:?}, documented order of the same paths is {want:?} ({})",
                                        small.hunk,
                                        r.idx,
                                        lo.describe()
                                    ),
                                ));
                                break;
                            }
                        }
                    }
                    let _ = std::fs::remove_dir_all(&a2);
                }
                after_hunk = r.path.contains("/i/") && r.verb == conserve::transport::record::Verb::Write;
            }
        }
        let _ = std::fs::remove_dir_all(&arch);
    }
    v
}

pub fn run(report: &Report, budget: &Budget) {
    let thorough = report.thorough();
    // 1. Validity
    let mut strings: Vec<String> = Vec::new();
    for s in seqs(&ALPHABET, 4) {
        let j = s.join("/");
        strings.push(format!("/{j}"));
        strings.push(j.clone());
        strings.push(format!("/{j}/"));
    }
    strings.push("/".into());
    strings.push(String::new());
    strings.push("//".into());
    let mut n_valid = 0;
    for s in &strings {
        let got = Apath::is_valid(s);
        let want = apath_valid(s);
        if want {
            n_valid += 1;
        }
        if got != want {
            let v = Violation::new(
                if got { "C11:accepts-malformed-path" } else { "C11:rejects-well-formed-path" },
                format!("is_valid({s:?}) = {got}, the stated rule gives {want}"),
            );
            report.violation(&v, &json!({"kind": "c11-valid", "string": s}));
        }
    }
    report.set("validity_strings", json!(strings.len()));
    report.set("validity_strings_valid", json!(n_valid));

    // 2. Order on all pairs to depth 4 (thorough) / 3 (quick), triples to depth 3 / 2.
    let (pd, td) = (4, 3);
    let mk = |d: usize| -> Vec<String> {
        let mut p: Vec<String> = vec!["/".to_string()];
        p.extend(seqs(&VALID, d).into_iter().map(|s| format!("/{}", s.join("/"))));
        p
    };
    let mut paths = mk(pd);
    if thorough {
        // deeper paths over a smaller alphabet (depth <= 6)
        paths.extend(
            seqs(&["a", "a-b", "é"], 6)
                .into_iter()
                .filter(|s| s.len() > pd)
                .map(|s| format!("/{}", s.join("/"))),
        );
    }
    let apaths: Vec<Apath> = paths.iter().map(|p| Apath::from(p.as_str())).collect();
    let pairs = AtomicU64::new(0);
    let outcomes = [AtomicU64::new(0), AtomicU64::new(0), AtomicU64::new(0)];
    let done = par_for(paths.len(), budget, |_w, i| {
        for j in 0..paths.len() {
            let got = apaths[i].cmp(&apaths[j]);
            let want = if paths[i] == paths[j] { Ordering::Equal } else { apath_cmp(&paths[i], &paths[j]) };
            outcomes[match got { Ordering::Less => 0, Ordering::Equal => 1, Ordering::Greater => 2 }].fetch_add(1, AO::Relaxed);
            if got != want || (got == Ordering::Equal) != (paths[i] == paths[j]) {
                let v = Violation::new(
                    "C11:comparison-differs-from-documented-order",
                    format!("cmp({:?}, {:?}) = {got:?}, documented order gives {want:?}", paths[i], paths[j]),
                );
                report.violation(&v, &json!({"kind": "c11-pair", "a": paths[i], "b": paths[j]}));
            }
            // antisymmetry directly
            if apaths[j].cmp(&apaths[i]) != got.reverse() {
                let v = Violation::new(
                    "C11:comparison-not-antisymmetric",
                    format!("cmp({:?}, {:?}) and its converse disagree", paths[i], paths[j]),
                );
                report.violation(&v, &json!({"kind": "c11-pair", "a": paths[i], "b": paths[j]}));
            }
        }
        pairs.fetch_add(paths.len() as u64, AO::Relaxed);
    });
    report.set("order_paths", json!(paths.len()));
    report.set("ordered_pairs_checked", json!(pairs.load(AO::Relaxed)));
    report.set("pairs_complete", json!(done == paths.len()));
    report.set("pair_outcomes_less_equal_greater", json!([outcomes[0].load(AO::Relaxed), outcomes[1].load(AO::Relaxed), outcomes[2].load(AO::Relaxed)]));
    let tpaths = mk(td);
    let tap: Vec<Apath> = tpaths.iter().map(|p| Apath::from(p.as_str())).collect();
    let triples = AtomicU64::new(0);
    let tdone = par_for(tpaths.len(), budget, |_w, i| {
        for j in 0..tpaths.len() {
            let ab = tap[i].cmp(&tap[j]);
            for k in 0..tpaths.len() {
                let bc = tap[j].cmp(&tap[k]);
                if ab != Ordering::Greater && bc != Ordering::Greater {
                    let ac = tap[i].cmp(&tap[k]);
                    let strict = ab == Ordering::Less || bc == Ordering::Less;
                    if ac == Ordering::Greater || (strict && ac != Ordering::Less) {
                        let v = Violation::new(
                            "C11:comparison-not-transitive",
                            format!("{:?} <= {:?} <= {:?} but cmp(first, last) = {ac:?}", tpaths[i], tpaths[j], tpaths[k]),
                        );
                        report.violation(&v, &json!({"kind": "c11-triple", "a": tpaths[i], "b": tpaths[j], "c": tpaths[k]}));
                    }
                }
            }
        }
        triples.fetch_add((tpaths.len() * tpaths.len()) as u64, AO::Relaxed);
    });
    report.set("triples_checked", json!(triples.load(AO::Relaxed)));
    report.set("triples_complete", json!(tdone == tpaths.len()));

    // 3. Derived structure on the sorted list: children before grandchildren, subtrees contiguous.
    let mut sorted: Vec<usize> = (0..paths.len()).collect();
    sorted.sort_by(|a, b| apaths[*a].cmp(&apaths[*b]));
    let sp: Vec<&String> = sorted.iter().map(|i| &paths[*i]).collect();
    let mut dirs_checked = 0;
    for d in sp.iter() {
        if d.matches('/').count() >= pd.max(if thorough { 6 } else { 0 }) && d.as_str() != "/" {
            continue;
        }
        let idx: Vec<usize> = sp
            .iter()
            .enumerate()
            .filter(|(_, p)| p.as_str() != d.as_str() && apath_under(d, p))
            .map(|(i, _)| i)
            .collect();
        if idx.is_empty() {
            continue;
        }
        dirs_checked += 1;
        if idx.last().unwrap() - idx[0] + 1 != idx.len() {
            let v = Violation::new(
                "C11:subtree-not-contiguous",
                format!("descendants of {d:?} are not contiguous in sorted order"),
            );
            report.violation(&v, &json!({"kind": "c11-structure", "dir": d}));
        }
        let depth_of = |p: &str| if p == "/" { 0 } else { p.matches('/').count() };
        let dd = depth_of(d);
        let mut seen_deeper = false;
        for i in &idx {
            let dep = depth_of(sp[*i]);
            if dep > dd + 1 {
                seen_deeper = true;
            } else if dep == dd + 1 && seen_deeper {
                let v = Violation::new(
                    "C11:grandchild-before-child",
                    format!("under {d:?}, {:?} sorts after a deeper descendant", sp[*i]),
                );
                report.violation(&v, &json!({"kind": "c11-structure", "dir": d}));
                break;
            }
        }
    }
    report.set("directories_structure_checked", json!(dirs_checked));

    // 4. Walk / index / listing order on every generated tree.
    let names = ["a", "a-b", "a.b", "a b", "ab", "é", ".h", "~"];
    let shapes = gen::shapes(&names, &[K::Dir, K::File, K::Link], if thorough { 4 } else { 3 }, 3);
    let srcs = SrcCache::new();
    // Fixed larger trees first: sibling directories whose names extend one another with a byte
    // below or above '/', each holding files, a sub-directory and a sub-sub-directory (the queue of
    // directories still to be walked holds entries of several depths at once).
    {
        let scratch = Scratch::new("c11big");
        for (ti, names) in [vec!["a", "a-b", "a.b", "a b", "ab", "a~"], vec!["conf", "conf.d", "é", "é-", "éé"]].iter().enumerate() {
            let mut t = crate::tree::empty_tree();
            for (i, n) in names.iter().enumerate() {
                let mt = crate::tree::T0 + 2000 + i as i64;
                t.insert(n.to_string(), crate::tree::Node::dir(mt));
                t.insert(format!("{n}/f"), crate::tree::Node::file(b"f", mt));
                t.insert(format!("{n}/sub"), crate::tree::Node::dir(mt));
                t.insert(format!("{n}/sub/g"), crate::tree::Node::file(b"g", mt));
                t.insert(format!("{n}/sub/deeper"), crate::tree::Node::dir(mt));
                t.insert(format!("{n}/sub/deeper/h"), crate::tree::Node::file(b"h", mt));
                t.insert(format!("{n}/sub-x"), crate::tree::Node::dir(mt));
                t.insert(format!("{n}/sub-x/i"), crate::tree::Node::symlink("f", mt));
            }
            t.insert("b".into(), crate::tree::Node::file(b"b", crate::tree::T0 + 2100));
            for hunk in [1usize, 2, 5, 1000] {
                for v in walk_order_case(&t, hunk, &srcs, &scratch) {
                    report.violation(&v, &json!({"kind": "c11-tree", "tree": crate::tree::tree_to_json(&t), "hunk": hunk}));
                }
            }
            report.set(&format!("fixed_tree_{ti}_entries"), json!(t.len()));
        }
    }
    // One band of more than 10000 hunks (the index then spans two sub-directories): the written
    // index and the listing of it are in the documented order.
    let rollover = || {
        let scratch = Scratch::new("c11roll");
        let mut t = crate::tree::empty_tree();
        for d in 0..10 {
            t.insert(format!("d{d}"), crate::tree::Node::dir(crate::tree::T0 + 2200));
            for i in 0..1005u32 {
                t.insert(format!("d{d}/f{i:04}"), crate::tree::Node::file(b"", crate::tree::T0 + 2201));
            }
        }
        let dir = scratch.fresh("src");
        crate::tree::materialize(&t, &dir);
        let mut expected: Vec<String> = t.keys().map(|k| crate::tree::apath_of(k)).collect();
        expected.sort_by(|a, b| apath_cmp(a, b));
        let arch = scratch.fresh("a");
        run::do_create_archive(&arch);
        let out = run::do_backup(&arch, &dir, &BOpts::new(1, 1 << 20, 1 << 20), run::NOHOOK, Flavor::Current);
        let case = json!({"kind": "c11-rollover"});
        if out.ok_stats().is_none() {
            report.violation(&Violation::new("C11:backup-failed", format!("tree of {} entries, one per hunk: {}", t.len(), out.describe())), &case);
        } else {
            let idx: Vec<String> = Snap::load(&arch).band_entries(0).into_iter().map(|e| e.apath).collect();
            if idx != expected {
                let at = idx.iter().zip(expected.iter()).position(|(a, b)| a != b).unwrap_or(idx.len().min(expected.len()));
                report.violation(&Violation::new("C11:index-order", format!("tree of {} entries written one per hunk: the index differs from the documented order at position {at} ({} entries read)", t.len(), idx.len())), &case);
            }
            let (lo, listed) = run::do_list(&arch, run::Sel::Band(0), "/", &[], run::NOHOOK);
            let l: Vec<String> = listed.into_iter().map(|e| e.apath).collect();
            if !lo.clean() || l != expected {
                let at = l.iter().zip(expected.iter()).position(|(a, b)| a != b).unwrap_or(l.len().min(expected.len()));
                report.violation(&Violation::new("C11:listing-order", format!("tree of {} entries written one per hunk: the listing ({}) differs from the documented order at position {at} ({} entries listed)", t.len(), lo.describe(), l.len())), &case);
            }
        }
        report.set("rollover_tree_entries", json!(t.len()));
    };
    let scratches: Vec<Scratch> = (0..crate::util::n_workers()).map(|_| Scratch::new("c11")).collect();
    let trees_done = AtomicUsize::new(0);
    let tdone2 = std::thread::scope(|sc| {
    let h = sc.spawn(rollover);
    let r = par_for(shapes.len(), budget, |w, i| {
        let _g = announce(w, || format!("C11 tree {:?}", shapes[i]));
        let t = gen::tree_of(&shapes[i]);
        let hunk = [1usize, 2, 1000][i % 3];
        for v in walk_order_case(&t, hunk, &srcs, &scratches[w]) {
            report.violation(&v, &json!({"kind": "c11-tree", "tree": crate::tree::tree_to_json(&t), "hunk": hunk}));
        }
        trees_done.fetch_add(1, AO::Relaxed);
        if i % 1009 == 7 {
            report.sample(json!({"tree": crate::tree::tree_brief(&t), "hunk": hunk}));
        }
        scratches[w].clear();
    });
    let _ = h.join();
    r
    });
    report.set("trees_walked", json!(tdone2));
    report.set("trees_total", json!(shapes.len()));
    report.sample(json!({"pair": [paths[1], paths[paths.len() / 2]], "validity": ["/a/../b", "/a//b", "/a/./b", "a/b", "/a\u{0}"]}));
    let states = strings.len() as u64 + paths.len() as u64 + shapes.len() as u64;
    report.set("states", json!(states));
    report.set("transitions", json!(pairs.load(AO::Relaxed) + triples.load(AO::Relaxed) + tdone2 as u64));
    report.set("traces_validated_against_impl", json!(strings.len() as u64 + pairs.load(AO::Relaxed) + tdone2 as u64));
    report.set("exhaustive", json!(done == paths.len() && tdone == tpaths.len() && tdone2 == shapes.len()));
    report.set("explanation", json!("inputs are enumerated completely within the stated bounds: validity on every string over the component alphabet to length 4 (three slash variants each), comparison on every ordered pair (and every triple to the smaller depth) of valid paths, walk/index/listing order on every tree shape over the names menu"));
    report.assume("the documented order is read component-wise, as the property statement spells out");
}

pub fn replay(case: &Value) -> Vec<Violation> {
    let mut v = Vec::new();
    match case["kind"].as_str().unwrap_or("") {
        "c11-valid" => {
            let s = case["string"].as_str().unwrap();
            if Apath::is_valid(s) != apath_valid(s) {
                v.push(Violation::new(
                    if Apath::is_valid(s) { "C11:accepts-malformed-path" } else { "C11:rejects-well-formed-path" },
                    format!("is_valid({s:?})"),
                ));
            }
        }
        "c11-pair" => {
            let (a, b) = (case["a"].as_str().unwrap(), case["b"].as_str().unwrap());
            let got = impl_cmp(a, b);
            if got != Ok(apath_cmp(a, b)) && a != b {
                v.push(Violation::new("C11:comparison-differs-from-documented-order", format!("{a:?} {b:?} {got:?}")));
            }
        }
        "c11-rollover" => {
            // the whole of run() is cheap enough; only the rollover block reports this kind
            let r = Report::new("C11", "quick", "model_checking");
            let b = Budget::new(600);
            run(&r, &b);
            v = Vec::new();
            eprintln!("(c11-rollover: re-ran the C11 check; violations, if any, are printed above)");
        }
        "c11-tree" => {
            let t = crate::tree::tree_from_json(&case["tree"]).unwrap();
            let srcs = SrcCache::new();
            let scratch = Scratch::new("replay");
            v = walk_order_case(&t, case["hunk"].as_u64().unwrap() as usize, &srcs, &scratch);
        }
        _ => {}
    }
    v
}
