//! E1 histories: breadth-first exploration of operation histories over an event alphabet, with
//! canonical-state deduplication and non-initial seeds. Every transition runs the real tool.

use std::collections::{BTreeMap, BTreeSet, HashSet};
use std::path::Path;
use std::sync::atomic::{AtomicUsize, Ordering};
use std::sync::Mutex;

use serde_json::{json, Value};

use crate::common::SrcCache;
use crate::fmt06::{self, Snap};
use crate::hook::{Icpt, OpRec, Plan, Pre};
use crate::report::{Report, Violation};
use crate::run::{self, BOpts, BackupOut, DeleteOut, Flavor};
use crate::tree::{empty_tree, Node, Tree, T0};
use crate::util::{announce, h64, par_for, Budget, Scratch};

// ---------------------------------------------------------------------------------------------
// Source universe

#[derive(Clone, Copy, Debug, PartialEq, Eq, Hash, PartialOrd, Ord)]
pub struct Src {
    pub f: u8,
    pub g: u8,
    pub big: u8,
    pub l: u8,
    pub fmode: u8,
}

/// Name of the 'big' slot's file.
pub const BIG: &str = "big\"\\\n";

pub const SRC0: Src = Src {
    f: 1,
    g: 1,
    big: 1,
    l: 1,
    fmode: 0,
};

impl Src {
    pub fn tree(&self) -> Tree {
        let mut t = empty_tree();
        let mode = if self.fmode == 1 { 0o600 } else { 0o644 };
        match self.f {
            1 => {
                t.insert("f".into(), Node::file(b"aaaaa", T0 + 101).with_mode(mode));
            }
            // (values 2 and 3 lie before the epoch with a fraction, exactly one second apart and of
            // one size: 2 -> 3 is a same-size rewrite whose mtime differs by one whole second there)
            2 => {
                t.insert("f".into(), Node::file(b"bbbbb", T0).with_mtime(-11, 250_000_000).with_mode(mode));
            }
            3 => {
                t.insert("f".into(), Node::file(b"aaaaa", T0).with_mtime(-10, 250_000_000).with_mode(mode));
            }
            4 => {
                t.insert("f".into(), Node::dir(T0 + 104));
            }
            5 => {
                // same size and same whole second as A, other bytes: only the nanoseconds differ
                t.insert("f".into(), Node::file(b"ccccc", T0 + 101).with_mtime(T0 + 101, 500).with_mode(mode));
            }
            _ => {}
        }
        match self.g {
            1 => {
                t.insert("d".into(), Node::dir(T0 + 110));
                t.insert("d/g".into(), Node::file(b"ggg", T0 + 111));
            }
            2 => {
                t.insert("d".into(), Node::dir(T0 + 110));
                t.insert("d/g".into(), Node::file(b"ggggggg", T0 + 111));
            }
            3 => {
                // same bytes as value A of /f: duplicate content inside one tree
                t.insert("d".into(), Node::dir(T0 + 110));
                t.insert("d/g".into(), Node::file(b"aaaaa", T0 + 112));
            }
            _ => {}
        }
        if self.fmode == 2 {
            // metadata-only change of a directory
            if let Some(d) = t.get_mut("d") {
                d.mode = 0o700;
            }
        }
        match self.big {
            1 => {
                // (its name has a quote, a backslash and a newline: the index has to escape it)
                t.insert(BIG.into(), Node::file(b"XXXXxxxxXX", T0 + 121));
            }
            2 => {
                // (stamped in the year 2100: ahead of any clock this runs under)
                t.insert(BIG.into(), Node::file(b"XXXXyyyyYY", 4_102_444_800 + 122));
            }
            _ => {}
        }
        match self.l {
            1 => {
                t.insert("l".into(), Node::symlink("f", T0 + 131));
            }
            2 => {
                t.insert("l".into(), Node::symlink("d", T0 + 132));
            }
            3 => {
                // a directory where the symlink was (and back): kind swaps across versions
                t.insert("l".into(), Node::dir(T0 + 133));
                t.insert("l/x".into(), Node::file(b"lx", T0 + 134));
            }
            _ => {}
        }
        t
    }

    pub fn set(&self, slot: u8, v: u8) -> Src {
        let mut s = *self;
        match slot {
            0 => s.f = v,
            1 => s.g = v,
            2 => s.big = v,
            3 => s.l = v,
            _ => s.fmode = v,
        }
        s
    }

    pub fn get(&self, slot: u8) -> u8 {
        match slot {
            0 => self.f,
            1 => self.g,
            2 => self.big,
            3 => self.l,
            _ => self.fmode,
        }
    }
}

/// Slot mutations: the full menu (thorough) and the reduced one (quick).
pub fn set_menu(full: bool) -> Vec<(u8, u8)> {
    if full {
        let mut v = Vec::new();
        for f in 0..=5 {
            v.push((0, f));
        }
        for g in 0..=3 {
            v.push((1, g));
        }
        for b in 0..=2 {
            v.push((2, b));
        }
        for l in 0..=3 {
            v.push((3, l));
        }
        v.push((4, 0));
        v.push((4, 1));
        v.push((4, 2));
        v
    } else {
        vec![(0, 2), (0, 3), (0, 4), (0, 5), (0, 0), (1, 2), (2, 2), (4, 1)]
    }
}

pub fn opts_p() -> BOpts {
    BOpts::new(1, 4, 8)
}
pub fn opts_q() -> BOpts {
    BOpts::defaults()
}
/// R: everything in one hunk, tiny blocks, both small files combined: several combined-block
/// flushes inside one hunk group, and a multi-entry hunk for stitching.
pub fn opts_r() -> BOpts {
    BOpts::new(1000, 4, 8)
}
pub fn opts_of(idx: u8) -> BOpts {
    match idx {
        0 => opts_p(),
        1 => opts_q(),
        _ => opts_r(),
    }
}

// ---------------------------------------------------------------------------------------------
// Events

#[derive(Clone, Debug, PartialEq, Eq, Hash)]
pub enum Op {
    /// Backup with options P (0) or Q (1).
    Backup(u8),
    /// Backup with options P (0) or R (2) stopped before its m-th mutating storage operation; with
    /// the flag, the target of that write is left behind as an empty file.
    Crashed(u8, usize, bool),
    Delete(Vec<u32>),
    Gc,
    /// A block referenced by nothing appears (seed construction only).
    Garbage(Vec<u8>),
}

#[derive(Clone, Debug, PartialEq, Eq, Hash)]
pub struct Ev {
    pub set: Option<(u8, u8)>,
    pub op: Op,
}

impl Ev {
    pub fn describe(&self) -> String {
        let s = match self.set {
            Some((slot, v)) => format!("set {}={} ; ", ["f", "d/g", "big", "l", "mode(f)"][slot as usize], v),
            None => String::new(),
        };
        let o = match &self.op {
            Op::Backup(0) => "backup(P)".to_string(),
            Op::Backup(1) => "backup(Q)".to_string(),
            Op::Backup(_) => "backup(R)".to_string(),
            Op::Crashed(o, m, l) => format!(
                "backup({}) killed before mutating op {m}{}",
                if *o == 0 { "P" } else { "R" },
                if *l { " leaving an empty file" } else { "" }
            ),
            Op::Delete(b) => format!("delete {b:?}"),
            Op::Gc => "gc".to_string(),
            Op::Garbage(c) => format!("garbage block {}", crate::util::show_bytes(c)),
        };
        format!("{s}{o}")
    }
    pub fn to_json(&self) -> Value {
        let op = match &self.op {
            Op::Backup(o) => json!({"backup": o}),
            Op::Crashed(o, m, l) => json!({"crashed": m, "opts": o, "leftover": l}),
            Op::Delete(b) => json!({"delete": b}),
            Op::Gc => json!("gc"),
            Op::Garbage(c) => json!({"garbage": crate::util::hex(c)}),
        };
        json!({"set": self.set.map(|(a, b)| json!([a, b])), "op": op})
    }
    pub fn from_json(v: &Value) -> Ev {
        let set = v["set"].as_array().map(|a| (a[0].as_u64().unwrap() as u8, a[1].as_u64().unwrap() as u8));
        let o = &v["op"];
        let op = if o == &json!("gc") {
            Op::Gc
        } else if let Some(b) = o.get("backup") {
            Op::Backup(b.as_u64().unwrap() as u8)
        } else if let Some(m) = o.get("crashed") {
            Op::Crashed(
                o.get("opts").and_then(|x| x.as_u64()).unwrap_or(0) as u8,
                m.as_u64().unwrap() as usize,
                o.get("leftover").and_then(|x| x.as_bool()).unwrap_or(false),
            )
        } else if let Some(d) = o.get("delete") {
            Op::Delete(d.as_array().unwrap().iter().map(|x| x.as_u64().unwrap() as u32).collect())
        } else {
            let h = o["garbage"].as_str().unwrap();
            Op::Garbage((0..h.len()).step_by(2).map(|i| u8::from_str_radix(&h[i..i + 2], 16).unwrap()).collect())
        };
        Ev { set, op }
    }
}

// ---------------------------------------------------------------------------------------------
// States

#[derive(Clone, Debug)]
pub struct HState {
    pub src: Src,
    pub snap: Snap,
    /// Complete, not deleted bands and the tree each must restore to.
    pub live: BTreeMap<u32, Tree>,
    /// Source tree of every band that has a head (complete or not).
    pub heads: BTreeMap<u32, Tree>,
    pub depth: usize,
    pub seed: usize,
    pub path: Vec<Ev>,
}

impl HState {
    pub fn key(&self) -> u64 {
        h64(&(
            &self.src,
            self.snap.canonical(),
            self.live.keys().collect::<Vec<_>>(),
            self.heads.keys().collect::<Vec<_>>(),
        ))
    }
    pub fn next_band(&self) -> u32 {
        self.snap.band_ids().last().map(|b| b + 1).unwrap_or(0)
    }
    pub fn describe_path(&self) -> Vec<String> {
        self.path.iter().map(|e| e.describe()).collect()
    }
}

/// What an executed transition looked like.
pub struct Transition<'a> {
    pub parent: &'a HState,
    pub ev: &'a Ev,
    pub child: &'a HState,
    /// Live directory holding the child's archive.
    pub dir: &'a Path,
    pub log: &'a [OpRec],
    pub backup: Option<&'a BackupOut>,
    pub delete: Option<&'a DeleteOut>,
    pub scratch: &'a Scratch,
    pub srcs: &'a SrcCache,
}

impl<'a> Transition<'a> {
    pub fn at(&self) -> String {
        format!(
            "seed {} after {:?}",
            self.child.seed,
            self.child.describe_path()
        )
    }
    pub fn case_json(&self, rider: &str) -> Value {
        case_json(rider, self.child.seed, &self.child.path)
    }
}

pub fn case_json(rider: &str, seed: usize, path: &[Ev]) -> Value {
    json!({"kind": "hist", "rider": rider, "seed": seed, "path": path.iter().map(|e| e.to_json()).collect::<Vec<_>>()})
}

/// Execute one event from `parent`; the resulting archive is left in `dir` (fresh).
/// Returns None if the event is not enabled (e.g. crash index beyond the trace).
pub struct Executed {
    pub child: HState,
    pub log: Vec<OpRec>,
    pub backup: Option<BackupOut>,
    pub delete: Option<DeleteOut>,
    /// A model-level problem seen while executing (fault-free operation failed, ...).
    pub problems: Vec<Violation>,
}

pub fn execute(
    parent: &HState,
    ev: &Ev,
    dir: &Path,
    srcs: &SrcCache,
    flavor: Flavor,
    with_log: bool,
) -> Option<Executed> {
    parent.snap.store(dir);
    let src = match ev.set {
        Some((slot, v)) => parent.src.set(slot, v),
        None => parent.src,
    };
    let tree = src.tree();
    let mut child = HState {
        src,
        snap: Snap::default(),
        live: parent.live.clone(),
        heads: parent.heads.clone(),
        depth: parent.depth + 1,
        seed: parent.seed,
        path: {
            let mut p = parent.path.clone();
            p.push(ev.clone());
            p
        },
    };
    let mut problems = Vec::new();
    let mut log = Vec::new();
    let mut backup = None;
    let mut delete = None;
    let new = parent.next_band();
    let at = || format!("seed {} after {:?}", parent.seed, child_path_desc(parent, ev));
    match &ev.op {
        Op::Backup(o) => {
            let opts = opts_of(*o);
            let icpt = if with_log { Some(Icpt::new(dir, Plan::none())) } else { None };
            let out = run::do_backup(dir, &srcs.dir_for(&tree), &opts, icpt.as_ref(), flavor);
            if let Some(i) = &icpt {
                log = i.take_log();
            }
            match out.ok_stats() {
                Some(s) if s.errors == 0 => {
                    child.live.insert(new, tree.clone());
                    child.heads.insert(new, tree.clone());
                }
                _ => problems.push(Violation::new(
                    "HIST:fault-free-backup-failed",
                    format!("{}: {}", at(), out.describe()),
                )),
            }
            backup = Some(out);
        }
        Op::Crashed(o, m, leftover) => {
            let copts = opts_of(*o);
            // Probe the fault-free trace on a copy to find the m-th mutating operation.
            let probe = dir.with_extension("probe");
            parent.snap.store(&probe);
            let icpt = Icpt::new(&probe, Plan::none());
            let _ = run::do_backup(&probe, &srcs.dir_for(&tree), &copts, Some(&icpt), Flavor::Current);
            let _ = std::fs::remove_dir_all(&probe);
            let trace = icpt.take_log();
            let muts: Vec<usize> = trace.iter().filter(|r| r.is_mutating()).map(|r| r.idx).collect();
            let k = *muts.get(*m)?;
            if *leftover && !(trace[k].verb == conserve::transport::record::Verb::Write && trace[k].pre == Pre::Absent) {
                return None; // only writes of new files can leave an empty file
            }
            let icpt = Icpt::new(dir, Plan::crash(k, *leftover));
            let out = run::do_backup(dir, &srcs.dir_for(&tree), &copts, Some(&icpt), Flavor::Current);
            log = icpt.take_log();
            if !out.crashed {
                problems.push(Violation::new(
                    "HIST:crash-point-not-reached",
                    format!("{}: {}", at(), out.describe()),
                ));
            }
            backup = Some(out);
        }
        Op::Delete(bands) => {
            let icpt = if with_log { Some(Icpt::new(dir, Plan::none())) } else { None };
            let out = run::do_delete(dir, bands, false, false, icpt.as_ref(), flavor, None);
            if let Some(i) = &icpt {
                log = i.take_log();
            }
            if out.op.is_ok() {
                for b in bands {
                    child.live.remove(b);
                    child.heads.remove(b);
                }
            }
            delete = Some(out);
        }
        Op::Gc => {
            let icpt = if with_log { Some(Icpt::new(dir, Plan::none())) } else { None };
            let out = run::do_delete(dir, &[], false, false, icpt.as_ref(), flavor, None);
            if let Some(i) = &icpt {
                log = i.take_log();
            }
            delete = Some(out);
        }
        Op::Garbage(c) => {
            fmt06::write_block(dir, c);
        }
    }
    child.snap = Snap::load(dir);
    if let Op::Crashed(..) = ev.op {
        if child.snap.has_head(new) {
            child.heads.insert(new, tree.clone());
        }
        // A kill that leaves an empty BANDTAIL leaves a band that is complete by the format's
        // definition (DESIGN.md 4a): it must then restore exactly like any complete version.
        if child.snap.has_tail_file(new) {
            child.live.insert(new, tree);
        }
    }
    Some(Executed {
        child,
        log,
        backup,
        delete,
        problems,
    })
}

fn child_path_desc(parent: &HState, ev: &Ev) -> Vec<String> {
    let mut p = parent.describe_path();
    p.push(ev.describe());
    p
}

/// Representative crash points (quick): before BANDHEAD, right after BANDHEAD, after the first
/// hunk, before BANDTAIL — located in a trace of mutating operations.
pub fn representative_points(muts: &[&OpRec]) -> Vec<usize> {
    let mut v = BTreeSet::new();
    for (i, r) in muts.iter().enumerate() {
        if r.path.ends_with("/BANDHEAD") {
            v.insert(i);
            v.insert(i + 1);
        }
        if r.path.ends_with("/BANDTAIL") {
            v.insert(i);
        }
        if r.path.contains("/i/") && r.path.ends_with("000000000") {
            v.insert(i + 1);
        }
    }
    v.into_iter().filter(|i| *i < muts.len()).collect()
}

// ---------------------------------------------------------------------------------------------
// Seeds

pub fn seeds(srcs: &SrcCache) -> Vec<HState> {
    let scratch = Scratch::new("seed");
    let mk = |seed: usize, evs: &[Ev]| -> HState {
        let dir = scratch.fresh("s");
        run::do_create_archive(&dir);
        let mut st = HState {
            src: SRC0,
            snap: Snap::load(&dir),
            live: BTreeMap::new(),
            heads: BTreeMap::new(),
            depth: 0,
            seed,
            path: Vec::new(),
        };
        let _ = std::fs::remove_dir_all(&dir);
        for ev in evs {
            let d = scratch.fresh("s");
            let ex = execute(&st, ev, &d, srcs, Flavor::Current, false).expect("seed event enabled");
            assert!(ex.problems.is_empty(), "seed {seed}: {:?}", ex.problems.iter().map(|p| &p.what).collect::<Vec<_>>());
            st = ex.child;
            let _ = std::fs::remove_dir_all(&d);
        }
        st.depth = 0;
        st.path = evs.to_vec(); // keep the seed's history for replays
        st
    };
    let b = |o: u8| Ev { set: None, op: Op::Backup(o) };
    vec![
        mk(0, &[]),
        // two complete bands + garbage whose content reappears when big becomes Y
        mk(
            1,
            &[
                b(0),
                Ev { set: Some((0, 2)), op: Op::Backup(0) },
                Ev { set: None, op: Op::Garbage(b"yyyy".to_vec()) },
                Ev { set: None, op: Op::Garbage(b"bbbbbggggggg".to_vec()) },
            ],
        ),
        // complete + incomplete band (killed before its BANDTAIL is far away: after two hunks)
        mk(2, &[b(0), Ev { set: Some((0, 2)), op: Op::Crashed(0, 6, false) }]),
        // band ids with a gap
        mk(
            3,
            &[
                b(1),
                Ev { set: Some((2, 2)), op: Op::Backup(0) },
                Ev { set: Some((0, 3)), op: Op::Backup(1) },
                Ev { set: None, op: Op::Delete(vec![1]) },
            ],
        ),
    ]
}

// ---------------------------------------------------------------------------------------------
// Exploration

pub struct Stats {
    pub states: usize,
    pub transitions: usize,
    pub depth_completed: usize,
    /// States on which the state-level rider ran to the end / states it was due on.
    pub rider_states_done: usize,
    pub rider_states_total: usize,
    pub executions: usize,
}

pub type OnTransition<'a> = &'a (dyn Fn(&Transition) -> Vec<Violation> + Sync);
pub type OnState<'a> = &'a (dyn Fn(&HState, &Scratch, &SrcCache) -> Vec<(Violation, Value)> + Sync);

/// Breadth-first exploration to `max_depth` archive events from every seed.
#[allow(clippy::too_many_arguments)]
pub fn explore(
    report: &Report,
    budget: &Budget,
    rider: &str,
    max_depth: usize,
    full_menu: bool,
    all_crash_points: bool,
    crash_r: bool,
    on_transition: OnTransition,
    on_state: Option<OnState>,
    collect: Option<&Mutex<Vec<HState>>>,
) -> Stats {
    let srcs = SrcCache::new();
    let seeds = seeds(&srcs);
    let seen: Mutex<HashSet<u64>> = Mutex::new(HashSet::new());
    let mut frontier: Vec<HState> = Vec::new();
    for s in seeds {
        if seen.lock().unwrap().insert(s.key()) {
            frontier.push(s);
        }
    }
    let nw = crate::util::n_workers();
    let scratches: Vec<Scratch> = (0..nw).map(|_| Scratch::new("hist")).collect();
    let transitions = AtomicUsize::new(0);
    let executions = AtomicUsize::new(0);
    let mut states = frontier.len();
    let mut depth_completed = 0;
    let menu = set_menu(full_menu);
    // State-level riders run on seeds too.
    let rider_done = AtomicUsize::new(0);
    let rider_total = AtomicUsize::new(0);
    let run_on_states = |sts: &[HState]| {
        if let Some(f) = on_state {
            rider_total.fetch_add(sts.len(), Ordering::SeqCst);
            let done = par_for(sts.len(), budget, |w, i| {
                let _g = announce(w, || format!("{rider} state {:?}", sts[i].describe_path()));
                for (v, case) in f(&sts[i], &scratches[w], &srcs) {
                    report.violation(&v, &case);
                }
                scratches[w].clear();
            });
            rider_done.fetch_add(done, Ordering::SeqCst);
        }
    };
    run_on_states(&frontier);
    if let Some(c) = collect {
        c.lock().unwrap().extend(frontier.iter().cloned());
    }
    for depth in 1..=max_depth {
        if budget.exceeded() {
            break;
        }
        // Work items: (state index, set option) groups and (state index, delete/gc) singles.
        #[derive(Clone)]
        enum Item {
            Group(usize, Option<(u8, u8)>),
            Single(usize, Op),
        }
        let mut items = Vec::new();
        for (si, st) in frontier.iter().enumerate() {
            items.push(Item::Group(si, None));
            for (slot, v) in &menu {
                if st.src.get(*slot) != *v {
                    items.push(Item::Group(si, Some((*slot, *v))));
                }
            }
            for b in st.snap.band_ids() {
                items.push(Item::Single(si, Op::Delete(vec![b])));
            }
            items.push(Item::Single(si, Op::Gc));
        }
        let next: Mutex<Vec<HState>> = Mutex::new(Vec::new());
        let do_event = |w: usize, st: &HState, ev: &Ev| -> Option<Vec<OpRec>> {
            let scratch = &scratches[w];
            let dir = scratch.fresh("a");
            let _g = announce(w, || format!("{rider} {:?} + {}", st.describe_path(), ev.describe()));
            let ex = execute(st, ev, &dir, &srcs, Flavor::Current, true)?;
            executions.fetch_add(1, Ordering::SeqCst);
            transitions.fetch_add(1, Ordering::SeqCst);
            for p in &ex.problems {
                report.violation(p, &case_json(rider, ex.child.seed, &ex.child.path));
            }
            let tr = Transition {
                parent: st,
                ev,
                child: &ex.child,
                dir: &dir,
                log: &ex.log,
                backup: ex.backup.as_ref(),
                delete: ex.delete.as_ref(),
                scratch,
                srcs: &srcs,
            };
            let vs = on_transition(&tr);
            for v in &vs {
                report.violation(v, &tr.case_json(rider));
            }
            report.outcome(format!(
                "{}:{}",
                match &ev.op {
                    Op::Backup(_) => "backup",
                    Op::Crashed(..) => "crashed",
                    Op::Delete(_) => "delete",
                    Op::Gc => "gc",
                    Op::Garbage(_) => "garbage",
                },
                match (&ex.backup, &ex.delete) {
                    (Some(b), _) => if b.crashed { "stopped".to_string() } else if b.ok_stats().is_some() { "ok".into() } else { "err".into() },
                    (_, Some(d)) => if d.op.is_ok() { "ok".to_string() } else { "refused".into() },
                    _ => "-".into(),
                }
            ));
            let key = ex.child.key();
            if seen.lock().unwrap().insert(key) {
                next.lock().unwrap().push(ex.child);
            }
            let log = ex.log;
            let _ = std::fs::remove_dir_all(&dir);
            Some(log)
        };
        let done = par_for(items.len(), budget, |w, i| {
            let (si, evs): (usize, Vec<Ev>) = match &items[i] {
                Item::Single(si, op) => (*si, vec![Ev { set: None, op: op.clone() }]),
                Item::Group(si, set) => {
                    let mut evs = vec![Ev { set: *set, op: Op::Backup(0) }, Ev { set: *set, op: Op::Backup(1) }];
                    if crash_r {
                        evs.push(Ev { set: *set, op: Op::Backup(2) });
                    }
                    (*si, evs)
                }
            };
            let st = &frontier[si];
            let mut trace_p = None;
            for (j, ev) in evs.iter().enumerate() {
                let log = do_event(w, st, ev);
                if j == 0 {
                    trace_p = log;
                }
            }
            if let (Item::Group(_, set), Some(trace)) = (&items[i], trace_p) {
                let src = match set {
                    Some((slot, v)) => st.src.set(*slot, *v),
                    None => st.src,
                };
                for copt in if crash_r { vec![0u8, 2u8] } else { vec![0u8] } {
                    let trace_c = if copt == 0 {
                        trace.clone()
                    } else {
                        // trace of the same backup under options R
                        let probe = scratches[w].fresh("pr");
                        st.snap.store(&probe);
                        let icpt = Icpt::new(&probe, Plan::none());
                        let _ = run::do_backup(&probe, &srcs.dir_for(&src.tree()), &opts_r(), Some(&icpt), Flavor::Current);
                        let _ = std::fs::remove_dir_all(&probe);
                        icpt.take_log()
                    };
                    let muts: Vec<&OpRec> = trace_c.iter().filter(|r| r.is_mutating()).collect();
                    let points: Vec<usize> = if all_crash_points {
                        (0..muts.len()).collect()
                    } else {
                        representative_points(&muts)
                    };
                    for m in points {
                        do_event(w, st, &Ev { set: *set, op: Op::Crashed(copt, m, false) });
                        if all_crash_points
                            && muts[m].verb == conserve::transport::record::Verb::Write
                            && muts[m].pre == Pre::Absent
                        {
                            do_event(w, st, &Ev { set: *set, op: Op::Crashed(copt, m, true) });
                        }
                    }
                }
            }
            scratches[w].clear();
        });
        if done < items.len() {
            // depth not completed
            report.set("depth_interrupted", json!(depth));
            break;
        }
        depth_completed = depth;
        let mut nx = next.into_inner().unwrap();
        nx.sort_by_key(|s| s.key());
        states += nx.len();
        run_on_states(&nx);
        if let Some(c) = collect {
            c.lock().unwrap().extend(nx.iter().cloned());
        }
        if depth_completed == 1 || depth_completed == max_depth {
            if let Some(s) = nx.first() {
                report.sample(json!({"seed": s.seed, "history": s.describe_path(), "bands": s.snap.band_ids(), "complete_live": s.live.keys().collect::<Vec<_>>()}));
            }
            if let Some(s) = nx.last() {
                report.sample(json!({"seed": s.seed, "history": s.describe_path(), "bands": s.snap.band_ids(), "complete_live": s.live.keys().collect::<Vec<_>>()}));
            }
        }
        frontier = nx;
    }
    Stats {
        states,
        transitions: transitions.load(Ordering::SeqCst),
        depth_completed,
        executions: executions.load(Ordering::SeqCst),
        rider_states_done: rider_done.load(Ordering::SeqCst),
        rider_states_total: rider_total.load(Ordering::SeqCst),
    }
}

pub fn write_stats(report: &Report, st: &Stats, max_depth: usize) {
    report.set("states", json!(st.states));
    report.set("transitions", json!(st.transitions));
    report.set("traces_validated_against_impl", json!(st.executions));
    report.set("depth_completed", json!(st.depth_completed));
    report.set("depth_target", json!(max_depth));
    report.set("exhaustive", json!(st.depth_completed == max_depth && st.rider_states_done == st.rider_states_total));
    if st.rider_states_total > 0 {
        report.set("state_rider_states_done", json!(st.rider_states_done));
        report.set("state_rider_states_total", json!(st.rider_states_total));
    }
    report.set("explanation", json!("states are (source state, canonical archive bytes, model); every transition is an execution of the real tool from a copy of the parent's archive, so every trace is validated against the implementation by construction"));
    report.assume("event alphabet of DESIGN.md section 3/E1; one source-slot change fused with each backup event; start_time/end_time masked in state keys");
}

/// Replay a recorded history with the given rider's oracle.
pub fn replay(case: &Value, on_transition: OnTransition, on_state: Option<OnState>) -> Vec<Violation> {
    let srcs = SrcCache::new();
    let all = seeds(&srcs);
    let seed = case["seed"].as_u64().unwrap() as usize;
    let path: Vec<Ev> = case["path"].as_array().unwrap().iter().map(Ev::from_json).collect();
    let mut st = all.into_iter().find(|s| s.seed == seed).expect("seed");
    let skip = st.path.len();
    let scratch = Scratch::new("replay");
    let mut out = Vec::new();
    for ev in path.iter().skip(skip) {
        let dir = scratch.fresh("a");
        let ex = match execute(&st, ev, &dir, &srcs, Flavor::Current, true) {
            Some(e) => e,
            None => {
                eprintln!("event {} not enabled while replaying", ev.describe());
                return out;
            }
        };
        out.extend(ex.problems.iter().cloned());
        let tr = Transition {
            parent: &st,
            ev,
            child: &ex.child,
            dir: &dir,
            log: &ex.log,
            backup: ex.backup.as_ref(),
            delete: ex.delete.as_ref(),
            scratch: &scratch,
            srcs: &srcs,
        };
        out.extend(on_transition(&tr));
        st = ex.child;
    }
    if let Some(f) = on_state {
        out.extend(f(&st, &scratch, &srcs).into_iter().map(|(v, _)| v));
    }
    out
}

pub fn is_backup_event(ev: &Ev) -> bool {
    matches!(ev.op, Op::Backup(_) | Op::Crashed(..))
}

pub fn pre_nonempty(r: &OpRec) -> bool {
    matches!(r.pre, Pre::File(n) if n > 0)
}
