//! C16: restore stays inside its destination and never clobbers by default (E1 inputs).

use std::path::Path;
use std::sync::atomic::{AtomicU64, Ordering as AO};

use serde_json::{json, Value};

use crate::fmt06::Snap;
use crate::hook::{Icpt, Plan};
use crate::report::{Report, Violation};
use crate::run::{self, BOpts, Flavor, RestoreArgs, Sel};
use crate::tree::{self, empty_tree, Node, Tree, T0};
use crate::util::{announce, par_for, Budget, Scratch};

const TARGETS: [&str; 9] = [
    "../outside_file",
    "../outside_dir",
    "@ABS@/outside_file",
    "@ABS@/outside_dir",
    "..",
    ".",
    "sib_file",
    "sib_dir",
    "dangling",
];

fn sentinels() -> Tree {
    let mut t = Tree::new();
    t.insert(String::new(), Node::dir(1_000_000_000));
    t.insert(
        "outside_file".into(),
        Node::file(b"SENTINEL", 1_111_111_111).with_mode(0o640).with_owner(1, 3).with_mtime(1_111_111_111, 111),
    );
    t.insert(
        "outside_dir".into(),
        Node::dir(1_222_222_222).with_mode(0o750).with_owner(2, 1).with_mtime(1_222_222_222, 222),
    );
    t.insert(
        "outside_dir/inner".into(),
        Node::file(b"INNER", 1_333_333_333).with_mode(0o604).with_owner(1, 1).with_mtime(1_333_333_333, 333),
    );
    t.insert(
        "outside_dir/sub".into(),
        Node::dir(1_444_444_444).with_mode(0o710).with_owner(1, 2).with_mtime(1_444_444_444, 444),
    );
    t.insert(
        "outside_dir/sub/deep".into(),
        Node::file(b"DEEP", 1_555_555_555).with_mode(0o600).with_owner(2, 2).with_mtime(1_555_555_555, 555),
    );
    t
}

/// Source tree with symlinks l0.. pointing at the given targets.
fn source_tree(targets: &[String]) -> Tree {
    let mut t = empty_tree();
    t.insert("sib_dir".into(), Node::dir(T0 + 1).with_mode(0o711).with_owner(2, 2));
    t.insert("sib_dir/x".into(), Node::file(b"xx", T0 + 2).with_mode(0o600).with_owner(2, 3));
    t.insert("sib_file".into(), Node::file(b"sibling", T0 + 3).with_mode(0o4711).with_owner(1, 2));
    for (i, tg) in targets.iter().enumerate() {
        t.insert(
            // the fourth link lives inside a directory
            if i == 3 { "sib_dir/l3".to_string() } else { format!("l{i}") },
            Node::symlink(tg, T0 + 10 + i as i64).with_owner(2, 1).with_mtime(T0 + 10 + i as i64, 777),
        );
    }
    t
}

fn outside(sandbox: &Path) -> Result<Tree, String> {
    let mut t = tree::observe(sandbox)?;
    t.retain(|k, _| k != "dest" && !k.starts_with("dest/") && !k.is_empty());
    Ok(t)
}

#[derive(Clone, Copy, Debug, PartialEq)]
enum Dest {
    Empty,
    Absent,
    Prepopulated,
    /// Pre-populated, restored with the overwrite option.
    PrepopulatedOverwrite,
}

fn check_outside(sandbox: &Path, before: &Tree, at: &str, site: &str) -> Vec<Violation> {
    match outside(sandbox) {
        Err(e) => vec![Violation::new(format!("C16:sandbox-unreadable:{site}"), format!("{at}: {e}"))],
        Ok(after) => {
            let diffs = tree::tree_diff(before, &after, tree::Cmp::FULL);
            if diffs.is_empty() {
                vec![]
            } else {
                vec![Violation::new(
                    format!("C16:restore-changed-something-outside-destination:{site}"),
                    format!("{at}: {diffs:?}"),
                )]
            }
        }
    }
}

pub fn judge(target_idx: &[usize], scratch: &Scratch, n: &AtomicU64) -> Vec<Violation> {
    let mut v = Vec::new();
    let sandbox = scratch.fresh("sb");
    tree::materialize(&sentinels(), &sandbox);
    let abs = sandbox.to_string_lossy().into_owned();
    let targets: Vec<String> = target_idx.iter().map(|i| TARGETS[*i].replace("@ABS@", &abs)).collect();
    let src_tree = source_tree(&targets);
    let src = scratch.fresh("src");
    tree::materialize(&src_tree, &src);
    let arch = scratch.fresh("a");
    run::do_create_archive(&arch);
    let out = run::do_backup(&arch, &src, &BOpts::defaults(), run::NOHOOK, Flavor::Current);
    if !out.clean_success() {
        v.push(Violation::new("C16:backup-failed", format!("targets {targets:?}: {}", out.describe())));
        return v;
    }
    let before = outside(&sandbox).expect("observe sandbox");
    for subtree in [None, Some("/sib_dir")] {
        for exclude in [vec![], vec!["/l1".to_string()]] {
            for dest_state in [Dest::Empty, Dest::Absent, Dest::Prepopulated, Dest::PrepopulatedOverwrite] {
                let dest = sandbox.join("dest");
                let _ = std::fs::remove_dir_all(&dest);
                let mut pre_dest = None;
                match dest_state {
                    Dest::Empty => std::fs::create_dir(&dest).unwrap(),
                    Dest::Absent => {}
                    Dest::Prepopulated | Dest::PrepopulatedOverwrite => {
                        let mut t = empty_tree();
                        t.insert("existing".into(), Node::file(b"keep me", 1_444_444_444).with_mode(0o640));
                        t.insert("l0".into(), Node::file(b"not a link", 1_444_444_445));
                        tree::materialize(&t, &dest);
                        if dest_state == Dest::Prepopulated {
                            pre_dest = Some(tree::observe(&dest).unwrap());
                        }
                    }
                }
                // creating / populating dest touched the sandbox root only, which is not compared
                let ro = run::do_restore(
                    &arch,
                    &dest,
                    &RestoreArgs {
                        sel: Sel::Band(0),
                        subtree,
                        exclude: &exclude,
                        overwrite: dest_state == Dest::PrepopulatedOverwrite,
                    },
                    run::NOHOOK,
                    Flavor::Current,
                );
                n.fetch_add(1, AO::Relaxed);
                let at = format!("targets {targets:?} subtree={subtree:?} exclude={exclude:?} dest={dest_state:?}: restore {}", ro.describe());
                if let Some(p) = &ro.panicked {
                    v.push(Violation::new("C16:restore-panicked", format!("{at}: {p}")));
                }
                v.extend(check_outside(&sandbox, &before, &at, "plain-restore"));
                if let Some(pre) = pre_dest {
                    let refused = matches!(&ro.result, Some(Err(_)));
                    if !refused {
                        v.push(Violation::new(
                            "C16:non-empty-destination-not-refused",
                            format!("{at}"),
                        ));
                    }
                    let post = tree::observe(&dest).unwrap_or_default();
                    let diffs = tree::tree_diff(&pre, &post, tree::Cmp::FULL);
                    if !diffs.is_empty() {
                        v.push(Violation::new(
                            "C16:non-empty-destination-modified",
                            format!("{at}: {diffs:?}"),
                        ));
                    }
                }
            }
        }
    }
    v
}

/// Stitched case: a complete version holds a directory `l0` with a file; the next version, in
/// which `l0` has become a symlink leading outside, is interrupted at every crash point; the
/// interrupted version is restored.
pub fn judge_stitched(target_idx: usize, name_idx: usize, scratch: &Scratch, n: &AtomicU64) -> Vec<Violation> {
    let mut v = Vec::new();
    // the directory that becomes a symlink: an ASCII name, and one with a multi-byte character
    // (byte lengths and character counts differ)
    let l0 = STITCH_NAMES[name_idx];
    let sandbox = scratch.fresh("sb");
    tree::materialize(&sentinels(), &sandbox);
    let abs = sandbox.to_string_lossy().into_owned();
    let target = TARGETS[target_idx].replace("@ABS@", &abs);
    let mut t0 = empty_tree();
    t0.insert(l0.into(), Node::dir(T0 + 1));
    t0.insert(format!("{l0}/inner"), Node::file(b"overwritten?", T0 + 2).with_mode(0o666).with_owner(2, 2));
    t0.insert(format!("{l0}/newfile"), Node::file(b"created?", T0 + 3));
    // nested entries: two and three levels below the directory that becomes a symlink
    t0.insert(format!("{l0}/sub"), Node::dir(T0 + 5).with_mode(0o777).with_owner(2, 1));
    t0.insert(format!("{l0}/sub/deep"), Node::file(b"overwritten deep?", T0 + 6).with_mode(0o666));
    t0.insert(format!("{l0}/sub/newdir"), Node::dir(T0 + 7));
    t0.insert(format!("{l0}/sub/newdir/leaf"), Node::file(b"leaf?", T0 + 8));
    t0.insert(format!("{l0}/sub/sl"), Node::symlink("deep", T0 + 9));
    t0.insert("zz".into(), Node::file(b"zz", T0 + 4));
    // a plain file that becomes a symlink as well (sorting before and after the directory)
    t0.insert("j".into(), Node::file(b"old content of j", T0 + 14).with_mode(0o666));
    t0.insert("p".into(), Node::file(b"old content of p", T0 + 15).with_mode(0o666));
    let mut t1 = empty_tree();
    t1.insert(l0.into(), Node::symlink(&target, T0 + 11));
    t1.insert("j".into(), Node::symlink(&target, T0 + 16));
    t1.insert("p".into(), Node::symlink(&target, T0 + 17));
    // other symlinks that sort between /l0 and the old entries below it, and before it
    t1.insert("k".into(), Node::symlink("zz", T0 + 12));
    t1.insert("m".into(), Node::symlink("zz", T0 + 13));
    t1.insert("zz".into(), Node::file(b"zz", T0 + 4));
    let src0 = scratch.fresh("s0");
    tree::materialize(&t0, &src0);
    let src1 = scratch.fresh("s1");
    tree::materialize(&t1, &src1);
    let arch = scratch.fresh("a");
    run::do_create_archive(&arch);
    let opts = BOpts::new(1, 1 << 20, 1 << 20);
    let out = run::do_backup(&arch, &src0, &opts, run::NOHOOK, Flavor::Current);
    if !out.clean_success() {
        return v;
    }
    let base = Snap::load(&arch);
    // trace of the second backup
    let probe = scratch.fresh("p");
    base.store(&probe);
    let icpt = Icpt::new(&probe, Plan::none());
    let _ = run::do_backup(&probe, &src1, &opts, Some(&icpt), Flavor::Current);
    let trace = icpt.take_log();
    let before = outside(&sandbox).expect("observe sandbox");
    for r in trace.iter().filter(|r| r.is_mutating()) {
        let a2 = scratch.fresh("a2");
        base.store(&a2);
        let icpt = Icpt::new(&a2, Plan::crash(r.idx, false));
        let o = run::do_backup(&a2, &src1, &opts, Some(&icpt), Flavor::Current);
        if !o.crashed {
            continue;
        }
        let snap = Snap::load(&a2);
        if !snap.has_head(1) {
            let _ = std::fs::remove_dir_all(&a2);
            continue;
        }
        let dest = sandbox.join("dest");
        let _ = std::fs::remove_dir_all(&dest);
        let ro = run::do_restore(&a2, &dest, &RestoreArgs::band(1), run::NOHOOK, Flavor::Current);
        n.fetch_add(1, AO::Relaxed);
        let at = format!(
            "b0 has directory /{l0} with files; b1 ({l0} -> {target:?}) interrupted before {}; restore of b1: {}",
            r.brief(),
            ro.describe()
        );
        v.extend(check_outside(&sandbox, &before, &at, "interrupted-version-with-dir-turned-symlink"));
        // the same version restored by subtree: the turned path itself as the subtree (the link is
        // the top of what is restored, the old entries below it follow), and a directory below it
        for sub in [format!("/{l0}"), format!("/{l0}/sub")] {
            let _ = std::fs::remove_dir_all(&dest);
            let ros = run::do_restore(
                &a2,
                &dest,
                &RestoreArgs {
                    sel: Sel::Band(1),
                    subtree: Some(&sub),
                    exclude: &[],
                    overwrite: false,
                },
                run::NOHOOK,
                Flavor::Current,
            );
            n.fetch_add(1, AO::Relaxed);
            let ats = format!("{at}; restored with only the subtree {sub}: {}", ros.describe().chars().take(200).collect::<String>());
            v.extend(check_outside(&sandbox, &before, &ats, "interrupted-version-with-dir-turned-symlink-restored-by-subtree"));
            if outside(&sandbox).ok().as_ref() != Some(&before) {
                let _ = std::fs::remove_dir_all(&sandbox);
                tree::materialize(&sentinels(), &sandbox);
            }
        }
        let _ = std::fs::remove_dir_all(&dest);
        let _ = run::do_restore(&a2, &dest, &RestoreArgs::band(1), run::NOHOOK, Flavor::Current);
        // and once more into the destination that restore has just produced, with overwrite
        let ro2 = run::do_restore(
            &a2,
            &dest,
            &RestoreArgs {
                sel: Sel::Band(1),
                subtree: None,
                exclude: &[],
                overwrite: true,
            },
            run::NOHOOK,
            Flavor::Current,
        );
        n.fetch_add(1, AO::Relaxed);
        let at2 = format!("{at}; restored again over the result with overwrite: {}", ro2.describe().chars().take(200).collect::<String>());
        v.extend(check_outside(&sandbox, &before, &at2, "interrupted-version-with-dir-turned-symlink-restored-twice"));
        // and with each single read of an index hunk failing during the restore (a reader that
        // loses its place in the older version must still not write through the new links)
        let probe_dest = sandbox.join("dest");
        let _ = std::fs::remove_dir_all(&probe_dest);
        let ic0 = Icpt::new(&a2, Plan::none());
        let _ = run::do_restore(&a2, &probe_dest, &RestoreArgs::band(1), Some(&ic0), Flavor::Current);
        let hunk_reads: Vec<usize> = ic0
            .take_log()
            .iter()
            .filter(|r| r.verb == conserve::transport::record::Verb::Read && r.path.contains("/i/"))
            .map(|r| r.idx)
            .collect();
        for k in hunk_reads {
            if outside(&sandbox).ok().as_ref() != Some(&before) {
                let _ = std::fs::remove_dir_all(&sandbox);
                tree::materialize(&sentinels(), &sandbox);
            }
            let _ = std::fs::remove_dir_all(&probe_dest);
            let ic = Icpt::new(&a2, Plan::fail1(k, conserve::transport::ErrorKind::Other));
            let ro3 = run::do_restore(&a2, &probe_dest, &RestoreArgs::band(1), Some(&ic), Flavor::Current);
            n.fetch_add(1, AO::Relaxed);
            let at3 = format!("{at}; restored with storage operation {k} (the read of an index hunk) failing: {}", ro3.describe().chars().take(160).collect::<String>());
            v.extend(check_outside(&sandbox, &before, &at3, "interrupted-version-restored-with-a-failing-index-read"));
        }
        // put the sentinels back if something was damaged, so later crash points are judged afresh
        if outside(&sandbox).ok().as_ref() != Some(&before) {
            let _ = std::fs::remove_dir_all(&sandbox);
            tree::materialize(&sentinels(), &sandbox);
        }
        let _ = std::fs::remove_dir_all(&a2);
    }
    v
}

pub const STITCH_NAMES: [&str; 2] = ["l0", "lé"];

fn tuples(max_len: usize) -> Vec<Vec<usize>> {
    let mut out: Vec<Vec<usize>> = Vec::new();
    let mut frontier: Vec<Vec<usize>> = vec![vec![]];
    for _ in 0..max_len {
        let mut next = Vec::new();
        for f in &frontier {
            for i in 0..TARGETS.len() {
                let mut n = f.clone();
                n.push(i);
                next.push(n);
            }
        }
        out.extend(next.iter().cloned());
        frontier = next;
    }
    out
}

pub fn run(report: &Report, budget: &Budget) {
    let thorough = report.thorough();
    let cases = tuples(if thorough { 4 } else { 3 });
    let scratches: Vec<Scratch> = (0..crate::util::n_workers()).map(|_| Scratch::new("c16")).collect();
    let n = AtomicU64::new(0);
    let ns = AtomicU64::new(0);
    let n_st = TARGETS.len() * STITCH_NAMES.len();
    let total = cases.len() + n_st;
    let done = par_for(total, budget, |w, i| {
        if i < n_st {
            let (ti, ni) = (i % TARGETS.len(), i / TARGETS.len());
            let _g = announce(w, || format!("C16 stitched target {} name {}", TARGETS[ti], STITCH_NAMES[ni]));
            for v in judge_stitched(ti, ni, &scratches[w], &ns) {
                report.violation(&v, &json!({"kind": "c16-stitched", "target": ti, "name": ni}));
            }
        } else {
            let c = &cases[i - n_st];
            let _g = announce(w, || format!("C16 targets {c:?}"));
            for v in judge(c, &scratches[w], &n) {
                report.violation(&v, &json!({"kind": "c16", "targets": c}));
            }
            if i % 97 == 13 {
                report.sample(json!({"symlink_targets": c.iter().map(|x| TARGETS[*x]).collect::<Vec<_>>(), "restores": "subtree in {none,/sib_dir} x exclude in {none,/l1} x destination in {empty,absent,pre-populated,pre-populated+overwrite}"}));
            }
        }
        scratches[w].clear();
    });
    report.set("states", json!(done));
    report.set("symlink_target_tuples", json!(cases.len()));
    report.set("transitions", json!(n.load(AO::Relaxed) + ns.load(AO::Relaxed)));
    report.set("plain_restores", json!(n.load(AO::Relaxed)));
    report.set("restores_of_interrupted_versions", json!(ns.load(AO::Relaxed)));
    report.set("traces_validated_against_impl", json!(n.load(AO::Relaxed) + ns.load(AO::Relaxed)));
    report.set("exhaustive", json!(done == total));
    report.set("explanation", json!("every tuple of at most N symlink targets from the menu (upward, absolute, '.', '..', siblings, dangling) is backed up and restored under every subtree/exclude/destination-state combination, inside a sandbox whose sentinels (distinct content, mode, owner, mtime) must be unchanged; plus, for every target, a version in which a directory became that symlink is interrupted at every crash point and the interrupted (stitched) version is restored"));
    report.assume("the sandbox root's own mtime is not compared (creating an absent destination changes it)");
}

pub fn replay(case: &Value) -> Vec<Violation> {
    let scratch = Scratch::new("replay");
    let n = AtomicU64::new(0);
    if case["kind"] == json!("c16-stitched") {
        judge_stitched(case["target"].as_u64().unwrap() as usize, case["name"].as_u64().unwrap_or(0) as usize, &scratch, &n)
    } else {
        let t: Vec<usize> = case["targets"].as_array().unwrap().iter().map(|x| x.as_u64().unwrap() as usize).collect();
        judge(&t, &scratch, &n)
    }
}
