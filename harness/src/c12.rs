//! C12: selecting a subtree returns exactly that subtree (E1 inputs).

use std::sync::atomic::{AtomicU64, Ordering as AO};

use serde_json::{json, Value};

use crate::fmt06::{apath_cmp, apath_under};
use crate::gen::{self, K};
use crate::report::{Report, Violation};
use crate::run::{self, BOpts, Flavor, RestoreArgs, Sel};
use crate::tree::{self, Cmp, Tree};
use crate::util::{announce, par_for, Budget, Scratch};

const NAMES: [&str; 6] = ["a", "ab", "a.b", "é", "éx", "日"];

fn site_of(s: &str) -> &'static str {
    if s.is_ascii() {
        "ascii-subtree"
    } else {
        "non-ascii-subtree"
    }
}

pub fn judge(t: &Tree, hunk: usize, scratch: &Scratch, counters: &[AtomicU64; 2]) -> Vec<Violation> {
    let mut v = Vec::new();
    let brief = tree::tree_brief(t);
    let src = scratch.fresh("src");
    tree::materialize(t, &src);
    let arch = scratch.fresh("a");
    run::do_create_archive(&arch);
    let out = run::do_backup(&arch, &src, &BOpts::new(hunk, 1 << 20, 1 << 20), run::NOHOOK, Flavor::Current);
    if !out.clean_success() {
        v.push(Violation::new("C12:backup-failed", format!("tree {brief}: {}", out.describe())));
        return v;
    }
    let mut all: Vec<String> = t.keys().map(|k| tree::apath_of(k)).collect();
    all.sort_by(|a, b| apath_cmp(a, b));
    // Selections: every entry, every top-level name (existing or not), two missing paths.
    let mut sels: Vec<String> = all.clone();
    for n in NAMES {
        sels.push(format!("/{n}"));
    }
    sels.push("/zz".into());
    sels.push("/a/zz".into());
    sels.sort();
    sels.dedup();
    for s in &sels {
        let expect: Vec<&String> = all.iter().filter(|p| apath_under(s, p)).collect();
        let (op, got) = run::do_list(&arch, Sel::Band(0), s, &[], run::NOHOOK);
        counters[0].fetch_add(1, AO::Relaxed);
        let got_p: Vec<&String> = got.iter().map(|e| &e.apath).collect();
        if !op.is_ok() || got_p != expect {
            let sig = if got_p.len() > expect.len() {
                "lists-entries-outside-subtree"
            } else {
                "misses-entries-of-subtree"
            };
            v.push(Violation::new(
                format!("C12:listing-{sig}:{}", site_of(s)),
                format!("tree {brief}: listing subtree {s} gives {got_p:?}, expected {expect:?} ({})", op.describe()),
            ));
        }
    }
    // Restore: S over the directories of the version.
    let full_dest = scratch.fresh("full");
    let fo = run::do_restore(&arch, &full_dest, &RestoreArgs::band(0), run::NOHOOK, Flavor::Current);
    let full = tree::observe(&full_dest).unwrap_or_default();
    if !fo.clean() {
        v.push(Violation::new("C12:full-restore-failed", format!("tree {brief}: {}", fo.describe())));
    }
    for (k, n) in t {
        if !n.is_dir() {
            continue;
        }
        let s = tree::apath_of(k);
        let dest = scratch.fresh("sub");
        let ro = run::do_restore(
            &arch,
            &dest,
            &RestoreArgs {
                sel: Sel::Band(0),
                subtree: Some(&s),
                exclude: &[],
                overwrite: false,
            },
            run::NOHOOK,
            Flavor::Current,
        );
        counters[1].fetch_add(1, AO::Relaxed);
        let got = tree::observe(&dest).unwrap_or_default();
        let under = |p: &str| k.is_empty() || p == k || p.starts_with(&format!("{k}/"));
        let expect_sub: Tree = full.iter().filter(|(p, _)| under(p)).map(|(p, n)| (p.clone(), n.clone())).collect();
        let got_sub: Tree = got.iter().filter(|(p, _)| under(p)).map(|(p, n)| (p.clone(), n.clone())).collect();
        let mut diffs = tree::tree_diff(&expect_sub, &got_sub, Cmp::FULL);
        for p in got.keys() {
            let ancestor = p.is_empty() || k.starts_with(&format!("{p}/"));
            if !under(p) && !ancestor {
                diffs.push(format!("restored /{p} which is outside the subtree"));
            }
        }
        if !ro.clean() || !diffs.is_empty() {
            v.push(Violation::new(
                format!("C12:restore-of-subtree-differs-from-full-restore:{}", site_of(&s)),
                format!("tree {brief}: restore of subtree {s}: {} {diffs:?}", ro.describe()),
            ));
        }
        let _ = std::fs::remove_dir_all(&dest);
    }
    // The same for interrupted versions: for every entry, a second backup of the tree without that
    // entry is killed after each index hunk; the stitched version is then listed and
    // restored by subtree and compared with its own full listing / full restore.
    let removable: Vec<String> = t.keys().filter(|k| !k.is_empty()).cloned().collect();
    for gone in removable {
    let mut t2 = t.clone();
    t2.retain(|p, _| *p != gone && !p.starts_with(&format!("{gone}/")));
    if t2.len() < 2 {
        continue;
    }
    let src2 = scratch.fresh("src2");
    tree::materialize(&t2, &src2);
    let base = crate::fmt06::Snap::load(&arch);
    let probe = scratch.fresh("p");
    base.store(&probe);
    let opts = BOpts::new(hunk, 1 << 20, 1 << 20);
    let icpt = crate::hook::Icpt::new(&probe, crate::hook::Plan::none());
    let _ = run::do_backup(&probe, &src2, &opts, Some(&icpt), Flavor::Current);
    let trace = icpt.take_log();
    let mut points = Vec::new();
    let mut after_hunk = false;
    for r in trace.iter().filter(|r| r.is_mutating()) {
        if after_hunk {
            points.push(r.idx);
        }
        after_hunk = r.path.contains("/i/") && r.verb == conserve::transport::record::Verb::Write;
    }
    for k in points {
        let a2 = scratch.fresh("a2");
        base.store(&a2);
        let ic = crate::hook::Icpt::new(&a2, crate::hook::Plan::crash(k, false));
        let o = run::do_backup(&a2, &src2, &opts, Some(&ic), Flavor::Current);
        if !o.crashed {
            continue;
        }
        let (fo, full_list) = run::do_list(&a2, Sel::Band(1), "/", &[], run::NOHOOK);
        if !fo.is_ok() {
            continue; // the full listing itself is C03's and C08's business
        }
        let full_paths: Vec<String> = full_list.iter().map(|e| e.apath.clone()).collect();
        let fdest = scratch.fresh("f2");
        let _ = run::do_restore(&a2, &fdest, &RestoreArgs::band(1), run::NOHOOK, Flavor::Current);
        let full_tree = tree::observe(&fdest).unwrap_or_default();
        for s in &sels {
            let expect: Vec<&String> = full_paths.iter().filter(|p| apath_under(s, p)).collect();
            let (op, got) = run::do_list(&a2, Sel::Band(1), s, &[], run::NOHOOK);
            counters[0].fetch_add(1, AO::Relaxed);
            let got_p: Vec<&String> = got.iter().map(|e| &e.apath).collect();
            if !op.is_ok() || got_p != expect {
                v.push(Violation::new(
                    format!("C12:listing-of-interrupted-version-by-subtree-differs-from-its-full-listing:{}", site_of(s)),
                    format!(
                        "tree {brief}, second version without /{gone} killed before op {k}: subtree {s} lists {got_p:?}, the full listing restricted to it is {expect:?}"
                    ),
                ));
            }
            // restore by subtree, for directories of the stitched version
            if full_list.iter().any(|e| &e.apath == s && e.kind == "Dir") && s != "/" {
                let key = &s[1..];
                let dest = scratch.fresh("s2");
                let ro = run::do_restore(
                    &a2,
                    &dest,
                    &RestoreArgs {
                        sel: Sel::Band(1),
                        subtree: Some(s),
                        exclude: &[],
                        overwrite: false,
                    },
                    run::NOHOOK,
                    Flavor::Current,
                );
                counters[1].fetch_add(1, AO::Relaxed);
                let got = tree::observe(&dest).unwrap_or_default();
                // Only listed paths are compared: a directory that exists merely because restore
                // created it on the way to an orphaned older entry (its own entry is not in the
                // stitched listing) carries the time of the restore, which differs between runs.
                let listed = |p: &str| full_paths.iter().any(|a| &a[1..] == p);
                let under = |p: &str| (p == key || p.starts_with(&format!("{key}/"))) && listed(p);
                let e_sub: Tree = full_tree.iter().filter(|(p, _)| under(p)).map(|(p, n)| (p.clone(), n.clone())).collect();
                let g_sub: Tree = got.iter().filter(|(p, _)| under(p)).map(|(p, n)| (p.clone(), n.clone())).collect();
                let diffs = tree::tree_diff(&e_sub, &g_sub, Cmp::FULL);
                if ro.panicked.is_some() || !diffs.is_empty() {
                    v.push(Violation::new(
                        format!("C12:restore-of-interrupted-version-by-subtree-differs-from-its-full-restore:{}", site_of(s)),
                        format!("tree {brief}, second version without /{gone} killed before op {k}: subtree {s}: {} {diffs:?}", ro.describe()),
                    ));
                }
                let _ = std::fs::remove_dir_all(&dest);
            }
        }
        let _ = std::fs::remove_dir_all(&a2);
        let _ = std::fs::remove_dir_all(&fdest);
    }
    let _ = std::fs::remove_dir_all(&src2);
    }
    v
}

pub fn run(report: &Report, budget: &Budget) {
    let thorough = report.thorough();
    let kinds: &[K] = if thorough { &[K::Dir, K::File, K::Link] } else { &[K::Dir, K::File] };
    let shapes = gen::shapes(&NAMES, kinds, if thorough { 4 } else { 3 }, 3);
    let scratches: Vec<Scratch> = (0..crate::util::n_workers()).map(|_| Scratch::new("c12")).collect();
    let counters = [AtomicU64::new(0), AtomicU64::new(0)];
    let done = par_for(shapes.len(), budget, |w, i| {
        let t = gen::tree_of(&shapes[i]);
        let hunk = [1usize, 2, 1000][i % 3];
        let _g = announce(w, || format!("C12 {}", tree::tree_brief(&t)));
        for v in judge(&t, hunk, &scratches[w], &counters) {
            report.violation(&v, &json!({"kind": "c12", "tree": tree::tree_to_json(&t), "hunk": hunk}));
        }
        if i % 499 == 11 {
            report.sample(json!({"tree": tree::tree_brief(&t), "hunk": hunk}));
        }
        scratches[w].clear();
    });
    report.set("states", json!(done));
    report.set("trees_total", json!(shapes.len()));
    report.set("transitions", json!(counters[0].load(AO::Relaxed) + counters[1].load(AO::Relaxed)));
    report.set("subtree_listings", json!(counters[0].load(AO::Relaxed)));
    report.set("subtree_restores", json!(counters[1].load(AO::Relaxed)));
    report.set("traces_validated_against_impl", json!(counters[0].load(AO::Relaxed) + counters[1].load(AO::Relaxed)));
    report.set("exhaustive", json!(done == shapes.len()));
    report.set("explanation", json!("every tree shape over the names menu (prefix-colliding and multi-byte names) is backed up; every entry, every top-level name and two missing paths are listed as subtree; every directory is restored as subtree and compared with the full restore"));
    report.assume("restoring a single nested file by path is left out, as the property says");
}

pub fn replay(case: &Value) -> Vec<Violation> {
    let t = tree::tree_from_json(&case["tree"]).unwrap();
    let scratch = Scratch::new("replay");
    let c = [AtomicU64::new(0), AtomicU64::new(0)];
    judge(&t, case["hunk"].as_u64().unwrap() as usize, &scratch, &c)
}
