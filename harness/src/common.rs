//! Scenarios (archives built by fault-free histories of the real tool) and oracles shared by
//! several properties.

use std::collections::{BTreeMap, BTreeSet};
use std::path::{Path, PathBuf};

use serde_json::{json, Value};

use crate::fmt06::{self, apath_cmp, band_dir, REntry, Snap};
use crate::hook::{Icpt, Plan};
use crate::run::{self, BOpts, Flavor, RestoreArgs};
use crate::tree::{self, empty_tree, Cmp, Node, NodeKind, Tree, T0};
use crate::util::Scratch;

// ---------------------------------------------------------------------------------------------
// Source trees used by the crash / fault / race scenarios.

fn put(t: &mut Tree, k: &str, n: Node) {
    t.insert(k.to_string(), n);
}

/// T1: two small files that share a combined block, a file of 2.5 blocks (block = 8), a directory
/// with a file, a symlink.
pub fn tree_t1() -> Tree {
    let mut t = empty_tree();
    put(&mut t, "big", Node::file(b"AAAAAAAABBBBBBBBCCCC", T0 + 1));
    put(&mut t, "d", Node::dir(T0 + 2));
    put(&mut t, "d/g", Node::file(b"ggggg", T0 + 3));
    put(&mut t, "f1", Node::file(b"11111", T0 + 4));
    put(&mut t, "f2", Node::file(b"22222", T0 + 5));
    put(&mut t, "l", Node::symlink("f1", T0 + 6));
    t
}

/// T2 = T1 with: f1 changed (same size, new mtime), the middle block of big changed, f2 removed,
/// a new last file z.
pub fn tree_t2() -> Tree {
    let mut t = tree_t1();
    put(&mut t, "big", Node::file(b"AAAAAAAAXXXXXXXXCCCC", T0 + 11));
    put(&mut t, "f1", Node::file(b"1x1x1", T0 + 14));
    t.remove("f2");
    put(&mut t, "z", Node::file(b"zzzzzzzzz", T0 + 17));
    t
}

/// T3 = T2 without directory d (so a resumed/stitched listing can pick up an orphan /d/g) and with
/// another small file.
pub fn tree_t3() -> Tree {
    let mut t = tree_t2();
    t.remove("d");
    t.remove("d/g");
    put(&mut t, "e", Node::file(b"eee", T0 + 21));
    t
}

/// Many small files spread over several combined blocks (for failed-flush scenarios).
pub fn tree_small_files() -> Tree {
    let mut t = empty_tree();
    for (i, name) in ["a", "b", "c", "d", "e", "f"].iter().enumerate() {
        let byte = b'A' + i as u8;
        put(&mut t, name, Node::file(&[byte; 4], T0 + 30 + i as i64));
    }
    t
}

/// Duplicate content inside one tree: two identical files stored as their own blocks, and four
/// identical small files that make two identical successive combined blocks (block = 8).
pub fn tree_dups() -> Tree {
    let mut t = empty_tree();
    put(&mut t, "big_a", Node::file(b"DUPLICATEDUP", T0 + 41));
    put(&mut t, "big_b", Node::file(b"DUPLICATEDUP", T0 + 42));
    for (i, name) in ["s1", "s2", "s3", "s4"].iter().enumerate() {
        put(&mut t, name, Node::file(b"XXXX", T0 + 43 + i as i64));
    }
    put(&mut t, "tail", Node::file(b"tt", T0 + 49));
    t
}

pub fn opts_s() -> BOpts {
    BOpts::new(2, 8, 6)
}

// ---------------------------------------------------------------------------------------------
// Scenarios

/// A step of a fault-free history that builds the "previous" archive of a scenario.
#[derive(Clone, Debug)]
pub enum Step {
    Backup(Tree, BOpts),
    /// A backup interrupted before its operation with this index in its own mutating-op sequence
    /// (counted over mutating operations only).
    CrashedBackup(Tree, BOpts, usize),
    /// The same, but the write that was interrupted leaves its target behind as an empty file.
    CrashedBackupLeftover(Tree, BOpts, usize),
    /// A block referenced by nothing, holding this content.
    Garbage(Vec<u8>),
    /// Remove a band directory behind conserve's back, to create an id gap.
    DropBand(u32),
    Delete(Vec<u32>),
}

#[derive(Clone, Debug)]
pub struct Scenario {
    pub name: String,
    /// The archive before the operation under test.
    pub pre: Snap,
    /// Source tree of every band directory that has a BANDHEAD (complete or not).
    pub band_src: BTreeMap<u32, Tree>,
    /// Bands that are complete (have a tail) in `pre`.
    pub complete: BTreeSet<u32>,
    /// The tree the operation under test backs up.
    pub src: Tree,
    pub opts: BOpts,
}

impl Scenario {
    pub fn next_band(&self) -> u32 {
        self.pre.band_ids().last().map(|b| b + 1).unwrap_or(0)
    }
    pub fn to_json(&self) -> Value {
        json!({
            "name": self.name,
            "pre_files": self.pre.files.iter().map(|(k, v)| json!([k, crate::util::hex(v)])).collect::<Vec<_>>(),
            "pre_dirs": self.pre.dirs.iter().collect::<Vec<_>>(),
            "band_src": self.band_src.iter().map(|(b, t)| json!([b, tree::tree_to_json(t)])).collect::<Vec<_>>(),
            "complete": self.complete.iter().collect::<Vec<_>>(),
            "src": tree::tree_to_json(&self.src),
            "opts": self.opts.to_json(),
        })
    }
    pub fn from_json(v: &Value) -> Scenario {
        let unhex = |s: &str| -> Vec<u8> {
            (0..s.len())
                .step_by(2)
                .map(|i| u8::from_str_radix(&s[i..i + 2], 16).unwrap())
                .collect()
        };
        let mut pre = Snap::default();
        for f in v["pre_files"].as_array().unwrap() {
            pre.files
                .insert(f[0].as_str().unwrap().to_string(), unhex(f[1].as_str().unwrap()));
        }
        for d in v["pre_dirs"].as_array().unwrap() {
            pre.dirs.insert(d.as_str().unwrap().to_string());
        }
        Scenario {
            name: v["name"].as_str().unwrap().to_string(),
            pre,
            band_src: v["band_src"]
                .as_array()
                .unwrap()
                .iter()
                .map(|e| {
                    (
                        e[0].as_u64().unwrap() as u32,
                        tree::tree_from_json(&e[1]).unwrap(),
                    )
                })
                .collect(),
            complete: v["complete"]
                .as_array()
                .unwrap()
                .iter()
                .map(|b| b.as_u64().unwrap() as u32)
                .collect(),
            src: tree::tree_from_json(&v["src"]).unwrap(),
            opts: BOpts::from_json(&v["opts"]),
        }
    }
}

/// Materialized source trees, shared read-only by all workers of a check.
pub struct SrcCache {
    scratch: Scratch,
    map: std::sync::Mutex<BTreeMap<u64, PathBuf>>,
}

impl SrcCache {
    pub fn new() -> SrcCache {
        SrcCache {
            scratch: Scratch::new("src"),
            map: std::sync::Mutex::new(BTreeMap::new()),
        }
    }
    pub fn dir_for(&self, t: &Tree) -> PathBuf {
        let key = crate::util::h64(t);
        let mut g = self.map.lock().unwrap();
        if let Some(p) = g.get(&key) {
            return p.clone();
        }
        let p = self.scratch.fresh("t");
        tree::materialize(t, &p);
        g.insert(key, p.clone());
        p
    }
}

/// Build a scenario's previous archive by running the history with the real tool.
pub fn build_scenario(
    name: &str,
    history: &[Step],
    src: Tree,
    opts: BOpts,
    srcs: &SrcCache,
) -> Scenario {
    let scratch = Scratch::new("build");
    let dir = scratch.fresh("arch");
    run::do_create_archive(&dir);
    let mut band_src = BTreeMap::new();
    let mut complete = BTreeSet::new();
    for step in history {
        match step {
            Step::Backup(t, o) => {
                let next = Snap::load(&dir).band_ids().last().map(|b| b + 1).unwrap_or(0);
                let out = run::do_backup(&dir, &srcs.dir_for(t), o, run::NOHOOK, Flavor::Current);
                assert!(
                    out.clean_success(),
                    "scenario {name}: history backup failed: {}",
                    out.describe()
                );
                band_src.insert(next, t.clone());
                complete.insert(next);
            }
            Step::CrashedBackup(t, o, mk) | Step::CrashedBackupLeftover(t, o, mk) => {
                let leftover = matches!(step, Step::CrashedBackupLeftover(..));
                let next = Snap::load(&dir).band_ids().last().map(|b| b + 1).unwrap_or(0);
                // Find the full-trace index of the mk-th mutating operation.
                let probe_dir = scratch.fresh("probe");
                Snap::load(&dir).store(&probe_dir);
                let icpt = Icpt::new(&probe_dir, Plan::none());
                let out = run::do_backup(&probe_dir, &srcs.dir_for(t), o, Some(&icpt), Flavor::Current);
                // (a damaged basis, e.g. a head-less band directory, is legitimately reported to the monitor)
                assert!(
                    out.ok_stats().is_some_and(|s| s.errors == 0),
                    "scenario {name}: probe backup failed: {}",
                    out.describe()
                );
                let log = icpt.take_log();
                let muts: Vec<usize> = log.iter().filter(|r| r.is_mutating()).map(|r| r.idx).collect();
                let k = *muts
                    .get(*mk)
                    .unwrap_or_else(|| panic!("scenario {name}: only {} mutating ops", muts.len()));
                let icpt = Icpt::new(&dir, Plan::crash(k, leftover));
                let out = run::do_backup(&dir, &srcs.dir_for(t), o, Some(&icpt), Flavor::Current);
                assert!(out.crashed, "scenario {name}: crash did not happen");
                if Snap::load(&dir).has_head(next) {
                    band_src.insert(next, t.clone());
                }
            }
            Step::Garbage(content) => {
                fmt06::write_block(&dir, content);
            }
            Step::DropBand(b) => {
                std::fs::remove_dir_all(dir.join(band_dir(*b))).expect("drop band");
                band_src.remove(b);
                complete.remove(b);
            }
            Step::Delete(bands) => {
                let out = run::do_delete(&dir, bands, false, false, run::NOHOOK, Flavor::Current, None);
                assert!(out.op.clean(), "scenario {name}: delete failed: {}", out.op.describe());
                for b in bands {
                    band_src.remove(b);
                    complete.remove(b);
                }
            }
        }
    }
    Scenario {
        name: name.to_string(),
        pre: Snap::load(&dir),
        band_src,
        complete,
        src,
        opts,
    }
}

/// The standard scenario set S1..S8 of DESIGN.md (C03), built with the real tool.
pub fn standard_scenarios(srcs: &SrcCache) -> Vec<Scenario> {
    let s = opts_s();
    let t1 = tree_t1();
    let t2 = tree_t2();
    let t3 = tree_t3();
    vec![
        build_scenario("S1-empty+T1", &[], t1.clone(), s.clone(), srcs),
        build_scenario(
            "S2-b0(T1)+T2",
            &[Step::Backup(t1.clone(), s.clone())],
            t2.clone(),
            s.clone(),
            srcs,
        ),
        build_scenario(
            "S3-b0(T1)+b1(T2,incomplete)+resume-T2",
            &[
                Step::Backup(t1.clone(), s.clone()),
                Step::CrashedBackup(t2.clone(), s.clone(), 9),
            ],
            t2.clone(),
            s.clone(),
            srcs,
        ),
        build_scenario(
            "S4-b0(T1)+garbage-reappearing+T2",
            &[
                Step::Backup(t1.clone(), s.clone()),
                Step::Garbage(b"zzzzzzzz".to_vec()),
                Step::Garbage(b"XXXXXXXX".to_vec()),
            ],
            t2.clone(),
            s.clone(),
            srcs,
        ),
        build_scenario(
            "S5-b0(T1,tiny)+T2-tiny",
            &[Step::Backup(t1.clone(), BOpts::new(1, 4, 8))],
            t2.clone(),
            BOpts::new(1, 4, 8),
            srcs,
        ),
        build_scenario(
            "S6-b0(T1)+T2-defaults",
            &[Step::Backup(t1.clone(), BOpts::defaults())],
            t2.clone(),
            BOpts::defaults(),
            srcs,
        ),
        build_scenario(
            "S7-gap(b0,b2)+T3",
            &[
                Step::Backup(t1.clone(), s.clone()),
                Step::Backup(t2.clone(), s.clone()),
                Step::Backup(t2.clone(), s.clone()),
                Step::Delete(vec![1]),
            ],
            t3.clone(),
            s.clone(),
            srcs,
        ),
        // a head-less band directory in the middle of the stitch chain (a backup killed between
        // mkdir and BANDHEAD), below an interrupted band that has hunks
        build_scenario(
            "S9-b0(T1)+b1(T2)+headless-b2+b3(T2,incomplete)+resume-T2",
            &[
                Step::Backup(t1.clone(), s.clone()),
                Step::Backup(t2.clone(), s.clone()),
                Step::CrashedBackup(t2.clone(), s.clone(), 1),
                Step::CrashedBackup(t2.clone(), s.clone(), 7),
            ],
            t2.clone(),
            s.clone(),
            srcs,
        ),
        build_scenario(
            "S10-b0(T1)+headless-b1+b2(T3,incomplete)+T3",
            &[
                Step::Backup(t1.clone(), s.clone()),
                Step::CrashedBackup(t3.clone(), s.clone(), 0),
                Step::CrashedBackup(t3.clone(), s.clone(), 8),
            ],
            t3.clone(),
            s.clone(),
            srcs,
        ),
        // an EMPTY BANDHEAD (killed write) in the middle of the chain: that band "exists" for
        // the walk backwards but cannot be opened
        build_scenario(
            "S11-b0(T1)+b1(empty-BANDHEAD)+b2(T2,incomplete)+resume-T2",
            &[
                Step::Backup(t1.clone(), s.clone()),
                Step::CrashedBackupLeftover(t2.clone(), s.clone(), 2),
                Step::CrashedBackup(t2.clone(), s.clone(), 8),
            ],
            t2.clone(),
            s.clone(),
            srcs,
        ),
        build_scenario(
            "S8-b0(T1)+two-incomplete+T3",
            &[
                Step::Backup(t1.clone(), s.clone()),
                Step::CrashedBackup(t2.clone(), s.clone(), 7),
                Step::CrashedBackup(t3.clone(), s.clone(), 6),
            ],
            t3.clone(),
            s.clone(),
            srcs,
        ),
    ]
}

/// Deterministic bytes that do not compress (xorshift), for inputs that have to cross size
/// thresholds *after* compression (buffers of the local transport, block files above 2 MiB).
pub fn incompressible(n: usize, seed: u64) -> Vec<u8> {
    let mut x = seed.wrapping_mul(0x9E37_79B9_7F4A_7C15) | 1;
    let mut v = Vec::with_capacity(n + 8);
    while v.len() < n {
        x ^= x << 13;
        x ^= x >> 7;
        x ^= x << 17;
        v.extend_from_slice(&x.to_le_bytes());
    }
    v.truncate(n);
    v
}

/// A tree with files whose blocks stay above 2 MiB after compression, under default options.
pub fn tree_big() -> Tree {
    let mut t = tree_t1();
    t.insert("bigrnd".into(), Node::file(&incompressible(3 << 20, 1), T0 + 60));
    t.insert("bigrnd2".into(), Node::file(&incompressible((2 << 20) + 4097, 2), T0 + 61));
    t
}

/// Scenarios with large inputs (kept apart: the fault sweeps of C04 would pay for them many times).
pub fn big_scenarios(srcs: &SrcCache) -> Vec<Scenario> {
    vec![build_scenario(
        "S12-b0(T1)+big-incompressible-files-defaults",
        &[Step::Backup(tree_t1(), BOpts::defaults())],
        tree_big(),
        BOpts::defaults(),
        srcs,
    )]
}

/// Two directories whose contents interleave with other entries in the index (a directory's own
/// entry comes long before its contents): in the new tree the first one lost its last files and
/// had one rewritten, so an interrupted version that got past them must not bring them back,
/// whichever selection it is read through.
pub fn subdir_scenarios(srcs: &SrcCache) -> Vec<Scenario> {
    let mut t4 = empty_tree();
    put(&mut t4, "sub", Node::dir(T0 + 70));
    for (i, n) in ["a", "b", "c", "d"].iter().enumerate() {
        put(&mut t4, &format!("sub/{n}"), Node::file(format!("sub-{n}").as_bytes(), T0 + 71 + i as i64));
    }
    put(&mut t4, "tail", Node::dir(T0 + 80));
    for (i, n) in ["x", "y", "z"].iter().enumerate() {
        put(&mut t4, &format!("tail/{n}"), Node::file(format!("tail-{n}").as_bytes(), T0 + 81 + i as i64));
    }
    let mut t5 = t4.clone();
    put(&mut t5, "sub/a", Node::file(b"SUB-A", T0 + 90));
    t5.remove("sub/c");
    t5.remove("sub/d");
    vec![build_scenario(
        "S13-b0(T4)+T5-files-gone-from-first-of-two-directories",
        &[Step::Backup(t4, opts_s())],
        t5,
        opts_s(),
        srcs,
    )]
}

// ---------------------------------------------------------------------------------------------
// Shared oracles

/// Restore a band and compare with the expected tree. Returns difference lines (empty = exact,
/// Ok, and no monitor error).
pub fn restore_exact(
    archive_dir: &Path,
    band: u32,
    expected: &Tree,
    scratch: &Scratch,
    cmp: Cmp,
) -> Vec<String> {
    let dest = scratch.fresh("rst");
    let out = run::do_restore(archive_dir, &dest, &RestoreArgs::band(band), run::NOHOOK, Flavor::Current);
    let mut diffs = Vec::new();
    if let Some(p) = &out.panicked {
        diffs.push(format!("restore of b{band:04} panicked: {p}"));
    } else if !out.is_ok() {
        diffs.push(format!("restore of b{band:04} failed: {}", out.describe()));
    } else {
        if !out.monitor_errors.is_empty() {
            diffs.push(format!(
                "restore of b{band:04} reported errors: {:?}",
                out.monitor_errors
            ));
        }
        match tree::observe(&dest) {
            Ok(got) => diffs.extend(tree::tree_diff(expected, &got, cmp)),
            Err(e) => diffs.push(format!("cannot observe restored tree: {e}")),
        }
    }
    let _ = std::fs::remove_dir_all(&dest);
    diffs
}

/// Independent reference scan: every address of every decodable entry of every band directory
/// names a block that is present, decompresses, and is long enough.
pub fn ref_scan(snap: &Snap, bands: &[u32]) -> Vec<String> {
    let mut problems = Vec::new();
    let mut lens: BTreeMap<String, Result<usize, String>> = BTreeMap::new();
    for b in bands {
        for e in snap.band_entries(*b) {
            for a in &e.addrs {
                let l = lens
                    .entry(a.hash.clone())
                    .or_insert_with(|| snap.block_content(&a.hash).map(|c| c.len()));
                match l {
                    Err(why) => problems.push(format!(
                        "b{b:04} {} refers to block {}…: {why}",
                        e.apath,
                        &a.hash[..8.min(a.hash.len())]
                    )),
                    Ok(n) => {
                        if a.start + a.len > *n as u64 {
                            problems.push(format!(
                                "b{b:04} {} needs bytes {}..{} of block {}… which holds {n}",
                                e.apath,
                                a.start,
                                a.start + a.len,
                                &a.hash[..8]
                            ));
                        }
                    }
                }
            }
        }
    }
    problems
}

/// Content of a file entry as the independent reader reconstructs it.
pub fn entry_content(snap: &Snap, e: &REntry) -> Result<Vec<u8>, String> {
    let mut out = Vec::new();
    for a in &e.addrs {
        let c = snap.block_content(&a.hash)?;
        let end = (a.start + a.len) as usize;
        if end > c.len() {
            return Err(format!(
                "address {}..{} beyond block of {} bytes",
                a.start,
                end,
                c.len()
            ));
        }
        out.extend_from_slice(&c[a.start as usize..end]);
    }
    Ok(out)
}

/// Blocks referenced by the decodable entries of the given bands.
pub fn referenced(snap: &Snap, bands: &[u32]) -> BTreeSet<String> {
    let mut s = BTreeSet::new();
    for b in bands {
        for e in snap.band_entries(*b) {
            for a in e.addrs {
                s.insert(a.hash);
            }
        }
    }
    s
}

/// Sorted apaths of a tree (under the independent comparator), root included.
pub fn tree_apaths(t: &Tree) -> Vec<String> {
    let mut v: Vec<String> = t.keys().map(|k| tree::apath_of(k)).collect();
    v.sort_by(|a, b| apath_cmp(a, b));
    v
}

/// Expected node for an index entry of a band, from the tree model of that band's source.
pub fn node_for<'a>(t: &'a Tree, apath: &str) -> Option<&'a Node> {
    t.get(&apath[1..])
}

/// Compare a decoded entry with a tree node (kind, size/content via independent reader, target,
/// mtime, mode).
pub fn entry_matches_node(snap: &Snap, e: &REntry, n: &Node) -> Result<(), String> {
    if e.kind != n.kind_name() {
        return Err(format!("kind {} but source is {}", e.kind, n.kind_name()));
    }
    match &n.kind {
        NodeKind::File(bytes) => {
            let got = entry_content(snap, e)?;
            if &got != bytes {
                return Err(format!(
                    "recorded content {} but source holds {}",
                    crate::util::show_bytes(&got),
                    crate::util::show_bytes(bytes)
                ));
            }
        }
        NodeKind::Symlink(t) => {
            if e.target.as_deref() != Some(t.as_str()) {
                return Err(format!("target {:?} but source has {t:?}", e.target));
            }
        }
        NodeKind::Dir => {}
    }
    if (e.mtime, e.mtime_nanos) != n.mtime {
        return Err(format!(
            "mtime {}.{:09} but source has {}.{:09}",
            e.mtime, e.mtime_nanos, n.mtime.0, n.mtime.1
        ));
    }
    Ok(())
}
