//! C18: diff and change reports agree with the real differences (E1 inputs).

use std::cmp::Ordering;
use std::path::Path;
use std::sync::atomic::{AtomicU64, Ordering as AO};

use conserve::monitor::test::TestMonitor;
use conserve::{Archive, BandId, BandSelectionPolicy, DiffOptions, Exclude, SourceTree};
use serde_json::{json, Value};

use crate::common;
use crate::fmt06::apath_cmp;
use crate::gen;
use crate::report::{Report, Violation};
use crate::run::{self, BOpts, End, Flavor};
use crate::tree::{self, empty_tree, Node, NodeKind, Tree, T0};
use crate::util::{announce, par_for, Budget, Scratch};

fn do_diff(archive_dir: &Path, band: u32, src: &Path, include_unchanged: bool) -> Result<Vec<(String, char)>, String> {
    let transport = run::transport_for(archive_dir, run::NOHOOK);
    let src = src.to_path_buf();
    let end = run::drive(Flavor::Current, run::NOHOOK, async move {
        let archive = Archive::open(transport).await.map_err(|e| e.to_string())?;
        let st = archive
            .open_stored_tree(BandSelectionPolicy::Specified(BandId::new(&[band])))
            .await
            .map_err(|e| e.to_string())?;
        let lt = SourceTree::open(&src).map_err(|e| e.to_string())?;
        let opts = DiffOptions {
            exclude: Exclude::nothing(),
            include_unchanged,
        };
        let mut d = conserve::diff(&st, &lt, opts, TestMonitor::arc())
            .await
            .map_err(|e| e.to_string())?;
        let mut out = Vec::new();
        while let Some(c) = d.next().await {
            out.push((c.apath.to_string(), c.change.sigil()));
            if out.len() > 100_000 {
                return Err("diff did not terminate".to_string());
            }
        }
        Ok(out)
    });
    match end {
        End::Done(r) => r,
        End::Panicked(p) => Err(format!("panic: {p}")),
        End::Crashed => Err("crashed".into()),
    }
}

/// The model's diff between two trees: (apath, sigil) in apath order.
fn model_diff(old: &Tree, new: &Tree, include_unchanged: bool) -> Vec<(String, char)> {
    let mut paths: Vec<String> = old.keys().chain(new.keys()).cloned().collect();
    paths.sort();
    paths.dedup();
    let mut ap: Vec<(String, String)> = paths.into_iter().map(|k| (tree::apath_of(&k), k)).collect();
    ap.sort_by(|a, b| apath_cmp(&a.0, &b.0));
    let mut out = Vec::new();
    for (a, k) in ap {
        match (old.get(&k), new.get(&k)) {
            (None, Some(_)) => out.push((a, '+')),
            (Some(_), None) => out.push((a, '-')),
            (Some(o), Some(n)) => {
                let changed = o.kind_name() != n.kind_name()
                    || o.uid != n.uid
                    || o.gid != n.gid
                    || (!matches!(o.kind, NodeKind::Symlink(_)) && o.mode != n.mode)
                    || match (&o.kind, &n.kind) {
                        (NodeKind::File(x), NodeKind::File(y)) => x.len() != y.len() || o.mtime != n.mtime,
                        (NodeKind::Symlink(x), NodeKind::Symlink(y)) => x != y,
                        _ => false,
                    };
                if changed {
                    out.push((a, '*'));
                } else if include_unchanged {
                    out.push((a, '.'));
                }
            }
            (None, None) => {}
        }
    }
    out
}

fn base_trees() -> Vec<Tree> {
    let t1 = common::tree_t1();
    let mut t2 = empty_tree();
    for (i, n) in ["a", "a-b", "a.b", "ab", "é", ".h"].iter().enumerate() {
        t2.insert(n.to_string(), Node::file(format!("c{i}").as_bytes(), T0 + 400 + i as i64));
    }
    t2.insert("a b".into(), Node::dir(T0 + 410));
    t2.insert("a b/f".into(), Node::file(b"inner", T0 + 411));
    t2.insert("~".into(), Node::symlink("a", T0 + 412));
    // Sibling directories whose names extend one another with a character that sorts below '/'
    // ('.', '-', ' '), the shorter one holding a nested directory: byte order of whole paths, of
    // directory strings and the documented order all differ here, so a merge of two listings that
    // are ordered differently loses its alignment.
    let mut t3 = empty_tree();
    for (i, d) in ["a", "a.old", "a-x", "a b"].iter().enumerate() {
        t3.insert(d.to_string(), Node::dir(T0 + 420 + i as i64));
        t3.insert(format!("{d}/f{i}"), Node::file(format!("in {d}").as_bytes(), T0 + 430 + i as i64));
    }
    t3.insert("a/sub".into(), Node::dir(T0 + 440));
    t3.insert("a/sub/g".into(), Node::file(b"deep", T0 + 441));
    t3.insert("a/sub/deeper".into(), Node::dir(T0 + 442));
    t3.insert("a/sub/deeper/h".into(), Node::file(b"deeper", T0 + 443));
    t3.insert("b".into(), Node::file(b"bee", T0 + 444));
    t3.insert("z".into(), Node::symlink("a", T0 + 445));
    // owners of which only one half has a name in the user/group databases (the index stores
    // names): a named user with an unnamed group and the reverse
    t3.insert("zu".into(), Node::file(b"half-named owner", T0 + 446).with_owner(0, 54_321));
    t3.insert("zv".into(), Node::file(b"half-named owner 2", T0 + 447).with_owner(54_321, 0));
    vec![t1, t2, t3]
}

const N_MUT: usize = 23;

/// Apply mutation m to a tree. `files`, `dirs`, `links`: the first names of each kind in the base.
fn mutate(t: &mut Tree, m: usize) {
    let first = |t: &Tree, f: &dyn Fn(&Node) -> bool, skip: usize| -> Option<String> {
        t.iter().filter(|(k, n)| !k.is_empty() && f(n)).map(|(k, _)| k.clone()).nth(skip)
    };
    let is_file = |n: &Node| n.is_file();
    let is_dir = |n: &Node| n.is_dir();
    let is_link = |n: &Node| matches!(n.kind, NodeKind::Symlink(_));
    let rm_children = |t: &mut Tree, k: &str| {
        let pre = format!("{k}/");
        t.retain(|p, _| !p.starts_with(&pre));
    };
    match m {
        0 => {
            // content changed, same size, new mtime
            if let Some(k) = first(t, &is_file, 0) {
                let n = t.get_mut(&k).unwrap();
                if let NodeKind::File(b) = &mut n.kind {
                    for x in b.iter_mut() {
                        *x = x.wrapping_add(1);
                    }
                }
                n.mtime.0 += 1000;
            }
        }
        1 => {
            // content of another size, new mtime
            if let Some(k) = first(t, &is_file, 1) {
                let n = t.get_mut(&k).unwrap();
                n.kind = NodeKind::File(b"a different and longer content".to_vec());
                n.mtime.0 += 1001;
            }
        }
        2 => {
            // mtime only
            if let Some(k) = first(t, &is_file, 2) {
                t.get_mut(&k).unwrap().mtime.1 = 5;
            }
        }
        3 => {
            if let Some(k) = first(t, &is_file, 1) {
                t.get_mut(&k).unwrap().mode = 0o600;
            }
        }
        4 => {
            if let Some(k) = first(t, &is_file, 0) {
                t.get_mut(&k).unwrap().uid = 1;
            }
        }
        5 => {
            // file -> dir
            if let Some(k) = first(t, &is_file, 3) {
                *t.get_mut(&k).unwrap() = Node::dir(T0 + 500);
            }
        }
        6 => {
            // dir -> file
            if let Some(k) = first(t, &is_dir, 0) {
                rm_children(t, &k);
                *t.get_mut(&k).unwrap() = Node::file(b"was a dir", T0 + 501);
            }
        }
        7 => {
            // file -> symlink
            if let Some(k) = first(t, &is_file, 2) {
                *t.get_mut(&k).unwrap() = Node::symlink("elsewhere", T0 + 502);
            }
        }
        8 => {
            t.insert("n".into(), Node::file(b"new file", T0 + 503));
        }
        9 => {
            t.insert("nd".into(), Node::dir(T0 + 504));
            t.insert("nd/inner".into(), Node::file(b"inner new", T0 + 505));
        }
        10 => {
            t.insert("nl".into(), Node::symlink("n", T0 + 506));
        }
        11 => {
            if let Some(k) = first(t, &is_file, 1) {
                t.remove(&k);
            }
        }
        12 => {
            if let Some(k) = first(t, &is_dir, 0) {
                rm_children(t, &k);
                t.remove(&k);
            }
        }
        13 => {
            if let Some(k) = first(t, &is_link, 0) {
                t.get_mut(&k).unwrap().kind = NodeKind::Symlink("retargeted".into());
            }
        }
        15 => {
            // chmod of a directory
            if let Some(k) = first(t, &is_dir, 0) {
                t.get_mut(&k).unwrap().mode = 0o700;
            }
        }
        16 => {
            // chgrp of a directory
            if let Some(k) = first(t, &is_dir, 0) {
                t.get_mut(&k).unwrap().gid = 3;
            }
        }
        17 => {
            // chown of a symlink
            if let Some(k) = first(t, &is_link, 0) {
                t.get_mut(&k).unwrap().uid = 2;
            }
        }
        18 => {
            // mtime of a directory and of a symlink only: not a change, by the statement
            if let Some(k) = first(t, &is_dir, 0) {
                t.get_mut(&k).unwrap().mtime.0 += 77;
            }
            if let Some(k) = first(t, &is_link, 0) {
                t.get_mut(&k).unwrap().mtime.0 += 78;
            }
        }
        21 => {
            // only a special mode bit of a file changes (set-user-id)
            if let Some(k) = first(t, &is_file, 1) {
                let n = t.get_mut(&k).unwrap();
                n.mode |= 0o4000;
            }
        }
        22 => {
            // only a special mode bit of a directory changes (sticky)
            if let Some(k) = first(t, &is_dir, 0) {
                let n = t.get_mut(&k).unwrap();
                n.mode |= 0o1000;
            }
        }
        20 => {
            // symlink -> file
            if let Some(k) = first(t, &is_link, 0) {
                *t.get_mut(&k).unwrap() = Node::file(b"was a link", T0 + 507);
            }
        }
        19 => {
            // chmod and chown of the root directory
            let n = t.get_mut("").unwrap();
            n.mode = 0o750;
            n.gid = 1;
        }
        _ => {
            // size-only change, same mtime
            if let Some(k) = first(t, &is_file, 4).or_else(|| first(t, &is_file, 0)) {
                let n = t.get_mut(&k).unwrap();
                if let NodeKind::File(b) = &mut n.kind {
                    b.extend_from_slice(b"++");
                }
            }
        }
    }
}

pub static OUTCOMES: std::sync::Mutex<std::collections::BTreeSet<String>> = std::sync::Mutex::new(std::collections::BTreeSet::new());

pub fn judge(base: &Tree, muts: &[usize], scratch: &Scratch) -> Vec<Violation> {
    let mut v = Vec::new();
    let at = format!("base {} mutations {muts:?}", tree::tree_brief(base).chars().take(80).collect::<String>());
    let src = scratch.fresh("src");
    tree::materialize(base, &src);
    let arch = scratch.fresh("a");
    run::do_create_archive(&arch);
    let opts = BOpts::new(3, 8, 6);
    let out = run::do_backup(&arch, &src, &opts, run::NOHOOK, Flavor::Current);
    if !out.clean_success() {
        v.push(Violation::new("C18:backup-failed", format!("{at}: {}", out.describe())));
        return v;
    }
    // (1) compared with the very tree it was made from: no change
    for inc in [true, false] {
        match do_diff(&arch, 0, &src, inc) {
            Err(e) => v.push(Violation::new("C18:diff-failed", format!("{at}: {e}"))),
            Ok(d) => {
                let want = model_diff(base, base, inc);
                if d != want {
                    v.push(Violation::new(
                        "C18:diff-of-unmodified-tree-reports-change",
                        format!("{at}: include_unchanged={inc}: {d:?}"),
                    ));
                }
            }
        }
    }
    if muts.is_empty() {
        return v;
    }
    // (2) after the mutations
    let mut new = base.clone();
    for m in muts {
        mutate(&mut new, *m);
    }
    let src2 = scratch.fresh("src2");
    tree::materialize(&new, &src2);
    for inc in [true, false] {
        match do_diff(&arch, 0, &src2, inc) {
            Err(e) => v.push(Violation::new("C18:diff-failed", format!("{at}: {e}"))),
            Ok(d) => {
                {
                    let mut sig: Vec<char> = d.iter().map(|x| x.1).collect();
                    sig.sort();
                    sig.dedup();
                    OUTCOMES.lock().unwrap().insert(format!("diff classes {sig:?} include_unchanged={inc}"));
                }
                let want = model_diff(base, &new, inc);
                if d != want {
                    let gd: std::collections::BTreeMap<_, _> = d.iter().cloned().collect();
                    let wd: std::collections::BTreeMap<_, _> = want.iter().cloned().collect();
                    let sig = if gd == wd {
                        "diff-order-wrong".to_string()
                    } else {
                        let (p, g, w) = wd
                            .iter()
                            .map(|(p, w)| (p.clone(), gd.get(p).cloned(), Some(*w)))
                            .chain(gd.iter().filter(|(p, _)| !wd.contains_key(*p)).map(|(p, g)| (p.clone(), Some(*g), None)))
                            .find(|(_, g, w)| g != w)
                            .unwrap();
                        let _ = p;
                        format!("diff-reports-{}-expected-{}", g.map(|c| c.to_string()).unwrap_or("nothing".into()), w.map(|c| c.to_string()).unwrap_or("nothing".into()))
                    };
                    v.push(Violation::new(
                        format!("C18:{sig}"),
                        format!("{at}: include_unchanged={inc}: diff gives {d:?}, the trees differ as {want:?}"),
                    ));
                }
            }
        }
    }
    // (3) the next backup's change callback names the same files
    let out2 = run::do_backup(&arch, &src2, &opts, run::NOHOOK, Flavor::Current);
    if !out2.clean_success() {
        v.push(Violation::new("C18:second-backup-failed", format!("{at}: {}", out2.describe())));
        return v;
    }
    let want = model_diff(base, &new, false);
    let is_file_in = |t: &Tree, a: &str| t.get(&a[1..]).is_some_and(|n| n.is_file());
    let mut want_cb: Vec<(String, char)> = Vec::new();
    for (a, s) in &want {
        match s {
            '+' if is_file_in(&new, a) => want_cb.push((a.clone(), '+')),
            // (a path that was a directory or symlink and is a file now is a changed file too)
            '*' if is_file_in(&new, a) => want_cb.push((a.clone(), '*')),
            '-' if is_file_in(base, a) => want_cb.push((a.clone(), '-')),
            _ => {}
        }
    }
    let mut got_cb: Vec<(String, char)> = out2
        .changes
        .iter()
        .filter(|(a, s)| {
            *s != '.'
                && match s {
                    '+' => is_file_in(&new, a),
                    '*' => is_file_in(&new, a),
                    '-' => is_file_in(base, a),
                    _ => false,
                }
        })
        .cloned()
        .collect();
    got_cb.sort_by(|a, b| apath_cmp(&a.0, &b.0).then(Ordering::Equal));
    want_cb.sort_by(|a, b| apath_cmp(&a.0, &b.0).then(Ordering::Equal));
    if got_cb != want_cb {
        v.push(Violation::new(
            "C18:backup-change-report-differs",
            format!("{at}: backup reported {got_cb:?}, the trees differ (files) as {want_cb:?}"),
        ));
    }
    // (4) a further backup of the same tree that leaves something out (a top-level directory and a
    // top-level file, by rooted pattern): the files the new version no longer holds are the real
    // difference between the two versions, and the report names exactly those as deleted.
    let plain = |k: &str| !k.is_empty() && !k.contains('/') && k.chars().all(|c| c.is_ascii_alphanumeric() || c == '.' || c == '-' || c == ' ');
    let mut excl: Vec<String> = Vec::new();
    if let Some((d, _)) = new.iter().find(|(k, n)| plain(k) && n.is_dir() && new.iter().any(|(c, cn)| cn.is_file() && c.starts_with(&format!("{k}/")))) {
        excl.push(format!("/{d}"));
    }
    if let Some((f, _)) = new.iter().find(|(k, n)| plain(k) && n.is_file()) {
        excl.push(format!("/{f}"));
    }
    if !excl.is_empty() {
        let mut o3 = opts.clone();
        o3.exclude = excl.clone();
        let out3 = run::do_backup(&arch, &src2, &o3, run::NOHOOK, Flavor::Current);
        if !out3.clean_success() {
            v.push(Violation::new("C18:third-backup-failed", format!("{at}: exclude {excl:?}: {}", out3.describe())));
            return v;
        }
        let covered = |a: &str| excl.iter().any(|p| a == p || a.starts_with(&format!("{p}/")));
        let mut want3: Vec<(String, char)> = new
            .iter()
            .filter(|(k, n)| !k.is_empty() && n.is_file() && covered(&format!("/{k}")))
            .map(|(k, _)| (format!("/{k}"), '-'))
            .collect();
        let mut got3: Vec<(String, char)> = out3
            .changes
            .iter()
            .filter(|(a, s)| *s != '.' && (*s != '-' || is_file_in(&new, a)))
            .cloned()
            .collect();
        got3.sort_by(|a, b| apath_cmp(&a.0, &b.0));
        want3.sort_by(|a, b| apath_cmp(&a.0, &b.0));
        if got3 != want3 {
            v.push(Violation::new(
                "C18:backup-change-report-differs-when-leaving-out",
                format!("{at}: backup excluding {excl:?} reported {got3:?}; the version before it and the new one differ (files) as {want3:?}"),
            ));
        }
        // (and the new version really is the old one less those paths)
        let snap = crate::fmt06::Snap::load(&arch);
        let held: Vec<String> = snap.band_entries(2).into_iter().map(|e| e.apath).collect();
        let expect: Vec<String> = snap.band_entries(1).into_iter().map(|e| e.apath).filter(|a| !covered(a)).collect();
        if held != expect {
            v.push(Violation::new(
                "C18:version-made-leaving-out-holds-other-paths",
                format!("{at}: excluding {excl:?}: holds {held:?}, expected {expect:?}"),
            ));
        }
    }
    v
}

pub fn cli_route(scratch: &Scratch) -> Vec<(Violation, Value)> {
    let base = base_trees().remove(2);
    let mut sets: Vec<Vec<usize>> = (0..N_MUT).map(|m| vec![m]).collect();
    sets.push(vec![0, 8, 11]);
    sets.push(vec![5, 6, 12]);
    let is_file_in = |t: &Tree, a: &str| t.get(&a[1..]).is_some_and(|n| n.is_file());
    let mut cases = Vec::new();
    for set in sets {
        let mut new = base.clone();
        for m in &set {
            mutate(&mut new, *m);
        }
        let want = model_diff(&base, &new, false);
        let want_all = model_diff(&base, &new, true);
        let mut want_cb: Vec<(String, char)> = Vec::new();
        for (a, s) in &want {
            match s {
                '+' if is_file_in(&new, a) => want_cb.push((a.clone(), '+')),
                '*' if is_file_in(&new, a) => want_cb.push((a.clone(), '*')),
                '-' if is_file_in(&base, a) => want_cb.push((a.clone(), '-')),
                _ => {}
            }
        }
        want_cb.sort_by(|a, b| apath_cmp(&a.0, &b.0));
        cases.push((base.clone(), new, want, want_all, want_cb));
    }
    crate::cli::c18(scratch, &cases)
}

pub fn run(report: &Report, budget: &Budget) {
    let thorough = report.thorough();
    let muts: Vec<usize> = (0..N_MUT).collect();
    let sets = gen::subsets_upto(&muts, if thorough { 4 } else { 3 });
    let bases = base_trees();
    let scratches: Vec<Scratch> = (0..crate::util::n_workers()).map(|_| Scratch::new("c18")).collect();
    let n = AtomicU64::new(0);
    let total = sets.len() * bases.len();
    let done = par_for(total, budget, |w, i| {
        let base = &bases[i % bases.len()];
        let set = &sets[i / bases.len()];
        let _g = announce(w, || format!("C18 base {} muts {set:?}", i % bases.len()));
        for v in judge(base, set, &scratches[w]) {
            report.violation(&v, &json!({"kind": "c18", "base": i % bases.len(), "mutations": set}));
        }
        n.fetch_add(1, AO::Relaxed);
        if i % 61 == 5 {
            report.sample(json!({"base_tree": i % bases.len(), "mutations": set}));
        }
        scratches[w].clear();
    });
    for o in OUTCOMES.lock().unwrap().iter() {
        report.outcome(o.clone());
    }
    report.set("states", json!(done));
    report.set("mutation_sets", json!(sets.len()));
    report.set("transitions", json!(n.load(AO::Relaxed) * 5));
    report.set("traces_validated_against_impl", json!(n.load(AO::Relaxed) * 5));
    report.set("exhaustive", json!(done == total));
    report.set("explanation", json!("three base trees x every set of at most N mutations from a menu of 23 (content, size-only, mtime-only, chmod, chown, kind swaps, additions, removals, retargeted link): diff with and without include_unchanged and the next backup's change callback are compared with the difference of the two tree models; then a further backup that leaves a directory and a file out by pattern must report exactly the files the new version no longer holds as deleted"));
    report.assume("the change callback is compared on paths that are regular files (in the new tree for '+' and '*', in the old one for '-'); a path that becomes a directory or symlink is left out, as the callback is only defined for files");
    report.assume("directory mtimes are not a change (as the implementation documents)");
}

pub fn replay(case: &Value) -> Vec<Violation> {
    let bases = base_trees();
    let scratch = Scratch::new("replay");
    let set: Vec<usize> = case["mutations"].as_array().unwrap().iter().map(|x| x.as_u64().unwrap() as usize).collect();
    judge(&bases[case["base"].as_u64().unwrap() as usize], &set, &scratch)
}
