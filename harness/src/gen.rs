//! Exhaustive generators of small trees.

use std::collections::BTreeSet;

use crate::tree::{empty_tree, Node, Tree, T0};

#[derive(Clone, Copy, Debug, PartialEq, Eq, PartialOrd, Ord, Hash)]
pub enum K {
    Dir,
    File,
    Link,
}

/// A tree shape: sorted list of (relative path, kind), closed under "parents are directories".
pub type Shape = Vec<(String, K)>;

/// All shapes with at most `max_nodes` nodes (root not counted), names from `names`, kinds from
/// `kinds`, nesting depth at most `max_depth` components.
pub fn shapes(names: &[&str], kinds: &[K], max_nodes: usize, max_depth: usize) -> Vec<Shape> {
    let mut all: BTreeSet<Shape> = BTreeSet::new();
    all.insert(Vec::new());
    let mut frontier: Vec<Shape> = vec![Vec::new()];
    for _ in 0..max_nodes {
        let mut next: BTreeSet<Shape> = BTreeSet::new();
        for sh in &frontier {
            // candidate parents: root and every directory
            let mut parents: Vec<String> = vec![String::new()];
            parents.extend(sh.iter().filter(|(_, k)| *k == K::Dir).map(|(p, _)| p.clone()));
            for parent in &parents {
                let depth = if parent.is_empty() { 0 } else { parent.matches('/').count() + 1 };
                if depth + 1 > max_depth {
                    continue;
                }
                for name in names {
                    let path = if parent.is_empty() {
                        name.to_string()
                    } else {
                        format!("{parent}/{name}")
                    };
                    if sh.iter().any(|(p, _)| *p == path) {
                        continue;
                    }
                    for k in kinds {
                        let mut n = sh.clone();
                        n.push((path.clone(), *k));
                        n.sort();
                        if !all.contains(&n) {
                            next.insert(n);
                        }
                    }
                }
            }
        }
        all.extend(next.iter().cloned());
        frontier = next.into_iter().collect();
    }
    all.into_iter().collect()
}

pub const LINK_TARGETS: [&str; 4] = ["a", "/etc/hostname", "does-not-exist", "é/日"];

/// Turn a shape into a tree with deterministic contents, mtimes and symlink targets (cycled).
pub fn tree_of(shape: &Shape) -> Tree {
    let mut t = empty_tree();
    for (i, (p, k)) in shape.iter().enumerate() {
        let mt = T0 + 1000 + i as i64 * 7;
        let node = match k {
            K::Dir => Node::dir(mt),
            K::File => Node::file(format!("c{i}!").as_bytes(), mt).with_mtime(mt, (i as u32 * 123_456_789) % 1_000_000_000),
            K::Link => Node::symlink(LINK_TARGETS[i % LINK_TARGETS.len()], mt),
        };
        t.insert(p.clone(), node);
    }
    t
}

/// Every subset of `items` with at most `k` elements (in index order).
pub fn subsets_upto<T: Clone>(items: &[T], k: usize) -> Vec<Vec<T>> {
    let mut out = vec![Vec::new()];
    fn rec<T: Clone>(items: &[T], start: usize, k: usize, cur: &mut Vec<T>, out: &mut Vec<Vec<T>>) {
        if cur.len() == k {
            return;
        }
        for i in start..items.len() {
            cur.push(items[i].clone());
            out.push(cur.clone());
            rec(items, i + 1, k, cur, out);
            cur.pop();
        }
    }
    rec(items, 0, k, &mut Vec::new(), &mut out);
    out
}
