//! C14: work already stored is never stored again.
//! (a) re-backup of every C01 input; (b) op log over the history graph; (c) resume after every
//! crash point (oracle in c03::run_crash_case).

use std::sync::atomic::{AtomicUsize, Ordering};

use conserve::transport::record::Verb;
use serde_json::{json, Value};

use crate::c03;
use crate::common::{self, SrcCache};
use crate::fmt06::Snap;
use crate::hist::{self, Op, Transition};
use crate::hook::{Icpt, Plan, Pre};
use crate::report::{Report, Violation};
use crate::run::{self, BOpts, Flavor};
use crate::tree::{self, Tree};
use crate::util::{announce, par_for, Budget, Scratch};

/// (a) Backing up an unchanged tree again writes no data block and records identical addresses.
pub fn judge_rebackup(t: &Tree, opts: &BOpts, tag: &str, scratch: &Scratch) -> Vec<Violation> {
    let mut v = Vec::new();
    let src = scratch.fresh("src");
    tree::materialize(t, &src);
    let arch = scratch.fresh("a");
    run::do_create_archive(&arch);
    let icpt0 = Icpt::new(&arch, Plan::none());
    let out = run::do_backup(&arch, &src, opts, Some(&icpt0), Flavor::Current);
    // Within the one run already: no write is issued for a block that is there (a refused
    // create-new attempt is work done again too), and none twice.
    let mut seen = std::collections::BTreeSet::new();
    for r in icpt0.take_log() {
        if r.verb == Verb::Write && r.path.starts_with("d/") {
            if matches!(r.pre, Pre::File(n) if n > 0) || !seen.insert(r.path.clone()) {
                v.push(Violation::new(
                    "C14:block-content-written-again-within-one-backup",
                    format!("{tag}: a write was issued for {} which this backup had already stored ({})", r.path, out.describe()),
                ));
                break;
            }
        }
    }
    if !out.clean_success() {
        return v; // C01's business
    }
    let icpt = Icpt::new(&arch, Plan::none());
    let out2 = run::do_backup(&arch, &src, opts, Some(&icpt), Flavor::Current);
    let log = icpt.take_log();
    let stats = match out2.ok_stats() {
        Some(s) if s.errors == 0 => s.clone(),
        _ => {
            v.push(Violation::new(
                "C14:second-backup-of-unchanged-tree-failed",
                format!("{tag}: {}", out2.describe()),
            ));
            return v;
        }
    };
    if stats.new_files != 0 || stats.modified_files != 0 {
        v.push(Violation::new(
            "C14:unchanged-tree-does-not-reuse-entries",
            format!("{tag}: second backup counts {} new and {} modified files", stats.new_files, stats.modified_files),
        ));
    }
    let block_writes: Vec<&str> = log
        .iter()
        .filter(|r| r.verb == Verb::Write && r.path.starts_with("d/"))
        .map(|r| r.path.as_str())
        .collect();
    if !block_writes.is_empty() || stats.written_blocks != 0 {
        v.push(Violation::new(
            "C14:unchanged-tree-writes-blocks",
            format!(
                "{tag}: second backup of the unchanged tree wrote {} blocks (stats.written_blocks={}), e.g. {:?}",
                block_writes.len(),
                stats.written_blocks,
                block_writes.first()
            ),
        ));
    }
    // A third backup of the still unchanged tree under different settings (other sizes, and owners
    // no longer recorded): unchanged files keep their recorded addresses whatever the settings, so
    // again nothing is written.
    // (blocks of a few bytes for the small trees; for trees of megabytes other, still moderate
    // sizes, so that the run stays short even if files were to be read again)
    let bytes: usize = t.values().map(|n| match &n.kind { crate::tree::NodeKind::File(c) => c.len(), _ => 0 }).sum();
    let other = if bytes > (1 << 20) {
        BOpts::new(if opts.hunk == 1 { 1000 } else { 1 }, if opts.block == 1 << 19 { 1 << 18 } else { 1 << 19 }, 1 << 10)
    } else {
        BOpts::new(
            if opts.hunk == 1 { 1000 } else { 1 },
            if opts.block == 4 { 8 } else { 4 },
            if opts.cap == 3 { 8 } else { 3 },
        )
    }
    .without_owner();
    let icpt3 = Icpt::new(&arch, Plan::none());
    let out3 = run::do_backup(&arch, &src, &other, Some(&icpt3), Flavor::Current);
    let log3 = icpt3.take_log();
    let writes3 = log3.iter().filter(|r| r.verb == Verb::Write && r.path.starts_with("d/")).count();
    match out3.ok_stats() {
        Some(s3) if s3.errors == 0 => {
            if writes3 != 0 || s3.written_blocks != 0 {
                v.push(Violation::new(
                    "C14:unchanged-tree-writes-blocks-under-other-settings",
                    format!("{tag}: third backup with {} wrote {writes3} blocks", other.describe()),
                ));
            }
        }
        _ => v.push(Violation::new(
            "C14:second-backup-of-unchanged-tree-failed",
            format!("{tag}: third backup: {}", out3.describe()),
        )),
    }
    let snap = Snap::load(&arch);
    let e0 = snap.band_entries(0);
    let e1 = snap.band_entries(1);
    let a2: Vec<_> = snap.band_entries(2).into_iter().map(|e| (e.apath, e.addrs)).collect();
    if a2.iter().map(|(p, a)| (p, a)).ne(e0.iter().map(|e| (&e.apath, &e.addrs))) {
        v.push(Violation::new(
            "C14:unchanged-tree-records-different-addresses-under-other-settings",
            format!("{tag}: third backup with {}", other.describe()),
        ));
    }
    let a0: Vec<_> = e0.iter().map(|e| (&e.apath, &e.addrs)).collect();
    let a1: Vec<_> = e1.iter().map(|e| (&e.apath, &e.addrs)).collect();
    if a0 != a1 {
        let first = a0.iter().zip(a1.iter()).find(|(x, y)| x != y);
        v.push(Violation::new(
            "C14:unchanged-tree-records-different-addresses",
            format!("{tag}: first difference {first:?}"),
        ));
    }
    v
}

/// (b) In any history each block path is written at most once while it remains.
pub fn hist_oracle(tr: &Transition) -> Vec<Violation> {
    let mut v = Vec::new();
    if !matches!(tr.ev.op, Op::Backup(_) | Op::Crashed(..)) {
        return v;
    }
    let mut seen = std::collections::BTreeSet::new();
    for r in tr.log {
        if r.verb == Verb::Write && r.path.starts_with("d/") {
            if matches!(r.pre, Pre::File(n) if n > 0) {
                v.push(Violation::new(
                    "C14:block-content-written-again",
                    format!("{}: {} was already stored", tr.at(), r.path),
                ));
            }
            if !seen.insert(r.path.clone()) {
                v.push(Violation::new(
                    "C14:block-written-twice-in-one-backup",
                    format!("{}: {}", tr.at(), r.path),
                ));
            }
        }
    }
    // A source that has not changed since the newest complete version writes no blocks and records
    // identical addresses - also when interrupted attempts at the same tree (with or without a
    // head) lie in between.
    if let Op::Backup(_) = &tr.ev.op {
        if let Some(last) = tr.parent.live.keys().max() {
            let tree = tr.child.src.tree();
            let later_same = tr
                .parent
                .snap
                .band_ids()
                .into_iter()
                .filter(|b| b > last)
                .all(|b| tr.parent.heads.get(&b).is_none_or(|t| *t == tree));
            if later_same && tr.parent.live[last] == tree && tr.backup.is_some_and(|b| b.ok_stats().is_some()) {
                let writes = tr.log.iter().filter(|r| r.verb == Verb::Write && r.path.starts_with("d/")).count();
                if writes > 0 {
                    v.push(Violation::new(
                        "C14:unchanged-source-writes-blocks",
                        format!("{}: {writes} block writes although the source equals the newest complete version b{last:04}", tr.at()),
                    ));
                }
                if let Some(stats) = tr.backup.and_then(|b| b.ok_stats()) {
                    if stats.new_files != 0 || stats.modified_files != 0 {
                        v.push(Violation::new(
                            "C14:unchanged-source-does-not-reuse-entries",
                            format!(
                                "{}: {} new and {} modified files although the source equals the newest complete version b{last:04}",
                                tr.at(),
                                stats.new_files,
                                stats.modified_files
                            ),
                        ));
                    }
                }
                let new_band = *tr.child.snap.band_ids().last().unwrap();
                let old: Vec<_> = tr.child.snap.band_entries(*last).into_iter().map(|e| (e.apath, e.addrs)).collect();
                let new: Vec<_> = tr.child.snap.band_entries(new_band).into_iter().map(|e| (e.apath, e.addrs)).collect();
                if old != new {
                    let first = old.iter().zip(new.iter()).find(|(a, b)| a != b);
                    v.push(Violation::new(
                        "C14:unchanged-source-records-different-addresses",
                        format!("{}: b{new_band:04} vs b{last:04}: first difference {first:?}", tr.at()),
                    ));
                }
            }
        }
    }
    v
}

/// (c) and the C13 crash-state rider: run every crash case of the standard scenarios and report
/// the violations of `which` ("C14" or "C13").
pub fn run_crash_rider(report: &Report, budget: &Budget, which: &str) -> (usize, usize) {
    let srcs = SrcCache::new();
    let mut scenarios = common::standard_scenarios(&srcs);
    if which == "C14" {
        // Resuming a backup of a tree that has not changed since the newest complete version.
        let s = common::opts_s();
        scenarios.push(common::build_scenario(
            "U1-b0(T1)+b1(T2)+T2-unchanged",
            &[common::Step::Backup(common::tree_t1(), s.clone()), common::Step::Backup(common::tree_t2(), s.clone())],
            common::tree_t2(),
            s.clone(),
            &srcs,
        ));
        scenarios.push(common::build_scenario(
            "U2-b0(T1,defaults)+b1(T2,defaults)+T2-unchanged",
            &[
                common::Step::Backup(common::tree_t1(), BOpts::defaults()),
                common::Step::Backup(common::tree_t2(), BOpts::defaults()),
            ],
            common::tree_t2(),
            BOpts::defaults(),
            &srcs,
        ));
    }
    let main_scratch = Scratch::new("c14");
    let mut cases = Vec::new();
    let mut traces = Vec::new();
    for (si, scn) in scenarios.iter().enumerate() {
        let (trace, _) = c03::reference_trace(scn, &srcs, &main_scratch);
        for (k, l) in c03::crash_points(&trace) {
            cases.push((si, k, l));
        }
        traces.push(trace);
    }
    let scratches: Vec<Scratch> = (0..crate::util::n_workers()).map(|_| Scratch::new("c14w")).collect();
    let n = AtomicUsize::new(0);
    let done = par_for(cases.len(), budget, |w, i| {
        let (si, k, l) = cases[i];
        let scn = &scenarios[si];
        let _g = announce(w, || format!("{which} crash {} k={k} leftover={l}", scn.name));
        let r = c03::run_crash_case(scn, &traces[si], k, l, &srcs, &scratches[w]);
        if let Some(m) = r.machinery {
            report.machinery_error(m);
            return;
        }
        let vs = if which == "C14" { &r.c14 } else { &r.c13 };
        for v in vs {
            report.violation(v, &c03::case_json(scn, k, l));
        }
        n.fetch_add(1, Ordering::SeqCst);
        if i % 41 == 9 {
            report.sample(json!({"scenario": scn.name, "crash_before": traces[si][k].brief(), "empty_file_leftover": l, "then": "resume with a backup of the same source"}));
        }
        scratches[w].clear();
    });
    report.set("crash_resume_cases", json!(done));
    report.set("crash_resume_cases_total", json!(cases.len()));
    (done, cases.len())
}

pub fn run(report: &Report, budget: &Budget) {
    let thorough = report.thorough();
    // (c) first: it is the cheapest and the most specific
    let (cdone, ctotal) = run_crash_rider(report, budget, "C14");
    // (b) history graph
    let depth = if thorough { 3 } else { 2 };
    let hb = crate::util::sub_budget(if thorough { 500 } else { 15 });
    let st = hist::explore(report, &hb, "C14", depth, thorough, false, thorough, &hist_oracle, None, None);
    hist::write_stats(report, &st, depth);
    // (a) re-backup of every C01 input
    // (quick: the structure sweep at hunk sizes 1 and 1000; size 2, the 10000-hunk tree, the 20 MiB
    // file and the 700-entry directory are left to the thorough tier)
    let f = |c: &crate::c01::Case, t: &Tree, scratch: &Scratch| {
        if !thorough && ((c.sweep == "structure" && c.opts.hunk == 2) || c.sweep == "rollover" || c.tag.starts_with("large: 20 MiB") || c.tag.starts_with("edges: 700")) {
            return Vec::new();
        }
        judge_rebackup(t, &c.opts, &c.tag, scratch)
    };
    let (adone, atotal) = crate::c01::for_each_case(report, budget, "C14", &f);
    report.set("rebackup_cases", json!(adone));
    report.set("rebackup_cases_total", json!(atotal));
    report.set("states", json!(st.states + adone + cdone));
    report.set("transitions", json!(st.transitions + adone * 2 + cdone * 2));
    report.set("traces_validated_against_impl", json!(st.executions + adone * 2 + cdone * 2));
    report.set("exhaustive", json!(adone == atotal && cdone == ctotal && st.depth_completed == depth));
    report.set("explanation", json!("(a) every (tree, options) input of the C01 sweeps is backed up twice; (b) the operation log of every backup event of the history graph is judged; (c) every crash point of the standard scenarios is followed by a resumed backup whose log and entries are judged"));
}

pub fn replay_hist(case: &Value) -> Vec<Violation> {
    hist::replay(case, &hist_oracle, None)
}
