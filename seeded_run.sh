#!/bin/bash
# seeded_run.sh <seed-id> <check-id>... : apply the seeded patch to /repo, run the checks, undo.
ID=$1; shift
cd /verif
EVB=$(mktemp -d /dev/shm/evidence-keep.XXXX); cp -a evidence/. $EVB/   # evidence written against a seeded change must not stay
[ -f /verif/seeded/$ID/pre.diff ] && git -C /repo apply /verif/seeded/$ID/pre.diff
git -C /repo apply /verif/seeded/$ID/patch.diff || { echo "patch does not apply"; exit 2; }
for c in "$@"; do
  echo "== $c against $ID"
  ./check $c quick 2>&1 | cut -c1-400 | grep -E "^VIOLATION|signature|^OK|KNOWN|MACHINERY|machinery|error" | head -8
  echo "exit=${PIPESTATUS[0]}"
done
git -C /repo checkout -- .
cp -a $EVB/. evidence/; rm -rf $EVB
git -C /repo status --short | head -3
