#!/usr/bin/env python3
"""Regenerates MANIFEST.json from the table below (kept next to the checks it describes)."""
import json, subprocess

props = [json.loads(l) for l in open('/verif/properties.jsonl')]
ids = [p['id'] for p in props]

def commits():
    out = subprocess.run(['git', '-C', '/repo', 'log', '--format=%H %s'], capture_output=True, text=True).stdout
    return [l.split()[0] for l in out.splitlines() if 'verif_hooks' in l]

E1I = "bounded exhaustive enumeration of inputs run through the real code against a reference model"
E1H = "explicit-state breadth-first search over operation histories; every transition executes the real code"
E2C = "exhaustive crash-point enumeration at the storage-operation seam of the real code"
E2F = "exhaustive single/double fault injection at the storage-operation seam of the real code"
E3 = "stateless exploration of all interleavings of two actors at storage-operation granularity with state-hash pruning (controlled scheduler on the real code)"

CHECKS = {
 'C02': dict(cat='model_checking', tech=E1H, eng='E1-histories', ref='DESIGN.md 4/C02',
   text="Breadth-first search over histories of {source-slot change + backup(P|Q), backup killed at a storage operation, delete, gc} from four seed archives; after every archive event every live complete version is restored and compared with the tree model and 'latest complete' is resolved. Exhaustive to the stated depth, so it covers orders of events no fixture samples.",
   note="Trusts the tree model (materialize/observe on tmpfs as root) and the masking of start/end timestamps in state keys; bounded depth (quick 2, thorough 3) and a 4-slot source universe."),
 'C03': dict(cat='fault_enumeration', tech=E2C, eng='E2-crash', ref='DESIGN.md 4/C03',
   text="For eight scenarios (thorough: plus every history state to depth 2) the backup is stopped before every mutating storage operation and, for every write, also with the target left as an empty file; each crashed archive is judged on six clauses (opens, old versions exact, no dangling reference by the independent reader, stitched listing/restore of the interrupted version, follow-up backup exact, any band with a tail exact).",
   note="Crash granularity is one storage operation plus the empty-file leftover; torn contents and partial remove_dir_all are not modelled. Trusts the independent format-0.6 reader."),
 'C04': dict(cat='fault_enumeration', tech=E2F, eng='E2-fault', ref='DESIGN.md 4/C04',
   text="Every operation of the backup's storage trace (reads included) fails with each of four error kinds, plus a storage outage from every point on, plus all fault pairs (deviation bound 2); the independent reader then compares every recorded file entry with the source bytes and the success/error reporting is judged.",
   note="Faults are injected at the transport seam (operation not executed). Bound: two faults per run; scenarios with tiny blocks so combined-block flushes happen mid-run."),
 'C05': dict(cat='model_checking', tech=E1H + "; plus crash/fault enumeration of each delete trace", eng='E1-histories+E2', ref='DESIGN.md 4/C05',
   text="Every archive state of the history graph x every subset of its versions x {dry-run, real} is executed and judged (versions gone, kept versions exact, reference scan, no garbage left, op log); for seed states (thorough: depth 1) every crash point of the delete trace under all block-deletion orders and every failing read/list/metadata operation is executed too.",
   note="remove_dir_all is one step. A refusing delete is legal. Bounded depth (quick 1, thorough 2)."),
 'C06': dict(cat='model_checking', tech=E3, eng='E3-interleavings', ref='DESIGN.md 4/C06',
   text="All interleavings of one backup and one gc/delete over an archive holding garbage that reappears in the source are explored (full product of the two traces, no preemption bound needed); at every terminal state every complete band must have all its blocks and restore exactly.",
   note="Two actors; one storage operation is one atomic step; actors are deterministic functions of their observations (state key = archive bytes + per-actor observation history + pending op)."),
 'C07': dict(cat='model_checking', tech=E1H + "; " + E3, eng='E1-histories+E3', ref='DESIGN.md 4/C07',
   text="The operation log and before/after snapshots of every backup (complete or interrupted), delete and gc event of the history graph are judged for write-once behaviour, and all interleavings of two backups of different sources are explored for band sharing, replaced files and double success.",
   note="History depth 2 (quick) / 3 (thorough); race: two actors, full product."),
}

checks = []
for i in ids:
    if i not in CHECKS:
        continue
    c = CHECKS[i]
    checks.append({
        'property_id': i,
        'quick_cmd': f'./check {i} quick',
        'thorough_cmd': f'./check {i} thorough',
        'evidence_file': f'/verif/evidence/{i}.json',
        'replay_cmd_template': './check replay {path}',
        'engine': c['eng'],
        'level_claimed': {'category': c['cat'], 'text': c['text'], 'design_ref': c['ref']},
        'level_note': c['note'],
        'technique': c['tech'],
    })

manifest = {
    'version': 1,
    'setup_cmd': './setup.sh',
    'hooks': {
        'guard': 'cargo feature verif_hooks (off by default)',
        'enable': 'harness/Cargo.toml depends on /repo with default-features = false, features = ["verif_hooks"]; ./check builds it with cargo build --release --offline',
        'baseline_off_cmd': 'cd /repo && cargo nextest run --workspace --no-fail-fast --tool-config-file pb:/w/lib/nextest.toml --profile pb --test-threads 8 --offline',
        'source_commits': commits(),
        'add_only': True,
    },
    'engines': [
        {'name': 'E1-inputs', 'path': 'harness/src', 'serves_properties': [i for i in CHECKS if CHECKS[i]['eng'].startswith('E1-inputs')], 'kind_free_text': E1I},
        {'name': 'E1-histories', 'path': 'harness/src/hist.rs', 'serves_properties': [i for i in CHECKS if 'E1-histories' in CHECKS[i]['eng']], 'kind_free_text': E1H},
        {'name': 'E2', 'path': 'harness/src/c03.rs, c04.rs, c05.rs, hook.rs', 'serves_properties': [i for i in CHECKS if 'E2' in CHECKS[i]['eng']], 'kind_free_text': E2C + ' / ' + E2F},
        {'name': 'E3', 'path': 'harness/src/e3.rs', 'serves_properties': [i for i in CHECKS if 'E3' in CHECKS[i]['eng']], 'kind_free_text': E3},
    ],
    'checks': checks,
    'notes': 'All checks drive the real conserve library built from /repo\'s working tree with the verif_hooks feature. Exit codes: 0 held / only listed known findings, 1 VIOLATION, >=2 machinery failure. known_findings.jsonl lists repaired defects (fixed: lines) and unrepaired ones.',
    'not_applicable': [
        {'property_id': i, 'reason': 'check not built yet (build phase in progress); planned, see DESIGN.md section 4'}
        for i in ids if i not in CHECKS
    ],
}
json.dump(manifest, open('/verif/MANIFEST.json', 'w'), indent=1)
print('checks:', [c['property_id'] for c in checks])
