#!/usr/bin/env python3
"""Regenerates MANIFEST.json from the table below (kept next to the checks it describes)."""
import json, subprocess

props = [json.loads(l) for l in open('/verif/properties.jsonl')]
ids = [p['id'] for p in props]

def commits():
    out = subprocess.run(['git', '-C', '/repo', 'log', '--format=%H %s'], capture_output=True, text=True).stdout
    return [l.split()[0] for l in out.splitlines() if 'verif_hooks' in l]

E1I = "bounded exhaustive enumeration of inputs run through the real code against a reference model"
E1H = "explicit-state breadth-first search over operation histories; every transition executes the real code"
E2C = "exhaustive crash-point enumeration at the storage-operation seam of the real code"
E2F = "exhaustive single/double fault injection at the storage-operation seam of the real code"
E3 = "stateless exploration of all interleavings of two actors at storage-operation granularity with state-hash pruning (controlled scheduler on the real code)"

CHECKS = {
 'C01': dict(cat='model_checking', tech=E1I, eng='E1-inputs', ref='DESIGN.md 4/C01',
   text="Every (tree, options) input of three complete sweeps - layout (all entry sequences over 13 size/kind classes x 24 option points, with distinct, duplicate and block-aligned contents so that one block is reached through the large-file path and the small-file combiner), structure (all tree shapes over a names menu with bytes below and above '/', multi-byte, leading dot), metadata (all 4096 modes on files and directories, an mtime menu with pre-epoch and sub-second values, an owner/group menu, exotic names, a tree of 10 030 entries written one per hunk, one input per size threshold visible in the code: incompressible files above 2 MiB, a file just above the 20 MiB block size, files around the 1 MiB small-file threshold, 300 one-block files, all-zero files of several lengths) - is backed up and restored by the real code and compared with the tree model through lstat/readlink/read. A sub-sweep drives the same operations through the tool's own command-line front end (src/bin/conserve.rs compiled next to the harness).",
   note="Runs as root on tmpfs. The three sweeps are each exhaustive within their bound; cross products between them are covered diagonally. Bounds: sequences <= 2 (quick) / 4 (thorough) entries, trees <= 3 / 4 nodes."),
 'C02': dict(cat='model_checking', tech=E1H, eng='E1-histories', ref='DESIGN.md 4/C02',
   text="Breadth-first search over histories of {source-slot change + backup(P|Q), backup killed at a storage operation, delete, gc} from four seed archives; after every archive event every live complete version is restored and compared with the tree model and 'latest complete' is resolved. Exhaustive to the stated depth, so it covers orders of events no fixture samples. Plus: the latest complete version among hand-written versions at ids 8-10, 98-100, 9998-10000 for every completeness pattern.",
   note="Trusts the tree model (materialize/observe on tmpfs as root) and the masking of start/end timestamps in state keys; bounded depth (quick 2, thorough 3) and a 4-slot source universe."),
 'C03': dict(cat='fault_enumeration', tech=E2C, eng='E2-crash', ref='DESIGN.md 4/C03',
   text="For thirteen scenarios (one with block files above 2 MiB, one with two directories of which the first loses files) (thorough: plus every history state to depth 2) the backup is stopped before every mutating storage operation and, for every write, also with the target left as an empty file; each crashed archive is judged on eight clauses (opens, old versions exact, latest complete version still found, no dangling reference by the independent reader, stitched listing/restore of the interrupted version - also listed under each of its directories and with one directory excluded -, follow-up backup exact, any band with a tail exact, no error report from a clean interruption).",
   note="Crash granularity is one storage operation plus the empty-file leftover; torn contents and partial remove_dir_all are not modelled. Trusts the independent format-0.6 reader."),
 'C04': dict(cat='fault_enumeration', tech=E2F, eng='E2-fault', ref='DESIGN.md 4/C04',
   text="Every operation of the backup's storage trace (reads included) fails with each of four error kinds, plus a storage outage from every point on, plus all fault pairs (deviation bound 2); the independent reader then compares every recorded file entry with the source bytes and the success/error reporting is judged. A sub-sweep through the tool's own command line runs backups under a file-size limit (ulimit -f with SIGXFSZ ignored) so that every write beyond 0, 1 and 64 KiB fails part way with a real EFBIG, with and without zero-length leftovers of the big blocks.",
   note="Faults are injected at the transport seam (operation not executed); writes that fail part way are produced below it by the operating system. Bound: two faults per run; scenarios with tiny blocks so combined-block flushes happen mid-run."),
 'C05': dict(cat='model_checking', tech=E1H + "; plus crash/fault enumeration of each delete trace", eng='E1-histories+E2', ref='DESIGN.md 4/C05',
   text="Every archive state of the history graph x every subset of its versions x {dry-run, real} is executed and judged (versions gone, every version still present - requested or not - exact, reference scan, no garbage left, op log), plus deletes naming a version that does not exist, plus a twelve-version history (band ids with every digit) with single versions, prefixes and nothing deleted; for seed states (thorough: depth 1) every crash point of the delete trace under all block-deletion orders and every failing read/list/metadata operation is executed too. A sub-sweep drives the same operations through the tool's own command-line front end (src/bin/conserve.rs compiled next to the harness).",
   note="remove_dir_all is one step. A refusing delete is legal. Bounded depth (quick 1, thorough 2)."),
 'C06': dict(cat='model_checking', tech=E3, eng='E3-interleavings', ref='DESIGN.md 4/C06',
   text="All interleavings of one backup and one gc/delete over an archive holding garbage that reappears in the source are explored (full product of the two traces, no preemption bound needed); at every terminal state every complete band must have all its blocks and restore exactly.",
   note="Two actors; one storage operation is one atomic step; actors are deterministic functions of their observations (state key = archive bytes + per-actor observation history + pending op)."),
 'C07': dict(cat='model_checking', tech=E1H + "; " + E3, eng='E1-histories+E3', ref='DESIGN.md 4/C07',
   text="The operation log and before/after snapshots of every backup (complete or interrupted), delete and gc event of the history graph are judged for write-once behaviour, and all interleavings of two backups of different sources are explored for band sharing, replaced files and double success. Plus real backups onto hand-written archives whose newest id is 9, 99, 999, 9999, 10000 or 10009 (also as a head-less directory): the new id must be above, existing files untouched.",
   note="History depth 2 (quick) / 3 (thorough); race: two actors, full product."),
 'C08': dict(cat='model_checking', tech=E1I, eng='E1-inputs', ref='DESIGN.md 4/C08',
   text="Every arrangement of up to 3 (thorough 4) versions, each absent / head-less / with an empty head / complete / incomplete with every subset of a path alphabet and every split of the entries into hunks, plus one version with an empty hunk at every position, plus all arrangements again at band ids 8-10, 98-100 and 9998-10000, is written by an independent writer; every version is listed under every subtree/exclusion filter by the real code and compared with a reference stitch function written from the statement (content, provenance, strict order, termination). A sub-sweep drives the same operations through the tool's own command-line front end (src/bin/conserve.rs compiled next to the harness).",
   note="Independent writer and reader (raw snappy + serde_json); 3-4 paths whose apath order differs from string order; watchdog for non-termination."),
 'C09': dict(cat='model_checking', tech=E1H + "; plus exhaustive damage enumeration at rest", eng='E1-histories+E2-damage', ref='DESIGN.md 4/C09',
   text="Healthy side: full and quick validate on every state of the history graph whose bands all have heads must be silent. Damage side: every file of three archives x {delete, truncate 0, truncate half, garbage} and every (quick: every 8th) single-bit flip of every block; whenever any version's restore outcome changes, validate must report. A sub-sweep drives the same operations through the tool's own command-line front end (src/bin/conserve.rs compiled next to the harness).",
   note="Removal of a BANDTAIL, and removal/emptying of the last hunk of an incomplete band (states an interrupted backup leaves), are excluded."),
 'C10': dict(cat='fault_enumeration', tech="exhaustive enumeration of single-file damage at rest, every read operation and a backup run on each damaged archive", eng='E2-damage', ref='DESIGN.md 4/C10',
   text="Every file except the archive header of three archives x {delete, truncate 0, truncate half, garbage} and every (quick: every 8th) single-bit flip of every file; versions, list and restore of every band, validate (full, quick), a new backup and its restore run on each; no panic or hang, untouched files exact, lost files reported (an interrupted version is judged also on the entries it takes over from the versions below it), backup after delete/empty damage exact.",
   note="In-process watchdog reports hangs as violations. A flipped hunk that still decodes is judged on no-crash and untouched files only."),
 'C11': dict(cat='model_checking', tech=E1I, eng='E1-inputs', ref='DESIGN.md 4/C11',
   text="Validity on every string over a 10-component alphabet to length 4 (three slash variants), comparison on every ordered pair (2.4M) and triple (17M) of valid paths against an independent comparator and validator, subtree contiguity on the sorted list, and on every tree shape over the names menu: source-walk order, index and listing order under two block layouts, and the stitched listing of a second version killed after each hunk, whole and under each of its first three directories. Two fixed larger trees (prefix-named sibling directories three levels deep) are walked, backed up and listed under four hunk sizes.",
   note="The documented order is read component-wise as the statement spells out. Depth <= 4 components."),
 'C12': dict(cat='model_checking', tech=E1I, eng='E1-inputs', ref='DESIGN.md 4/C12',
   text="Every tree shape over prefix-colliding and multi-byte names is backed up; every entry, every top-level name and two missing paths are listed as subtree and compared with the component-prefix rule; every directory is restored as subtree and compared with the full restore; the same for interrupted versions (for every entry, a second backup without it killed after each hunk, listed and restored by subtree against its own full listing/restore). A sub-sweep drives the same operations through the tool's own command-line front end (src/bin/conserve.rs compiled next to the harness).",
   note="Trees <= 3 (quick) / 4 (thorough) nodes over 6 names; single nested files are left out as the property says."),
 'C13': dict(cat='model_checking', tech=E1H + "; " + E1I + "; " + E2C, eng='E1+E2', ref='DESIGN.md 4/C13',
   text="Every archive state reached - history graph, every crash state of the standard scenarios, every archive written under every single storage fault and outage, every input of the C01 sweeps under all 24 option points (incl. a band of more than 10000 hunks) - is read by an independent format-0.6 reader written from doc/format.md and judged (only documented files, hunk numbering and placement, order within and across hunks, tail count, block naming/hash, addresses inside blocks, addrs only on files summing to the size, target only on symlinks, no lock left behind).",
   note="Zero-length files (leftover of a killed write) are skipped. Independent reader is the trusted base."),
 'C14': dict(cat='model_checking', tech=E1H + "; " + E1I + "; " + E2C, eng='E1+E2', ref='DESIGN.md 4/C14',
   text="(a) every C01 input is backed up three times (the third under other settings and without recording owners): no write issued for a block already stored within a run, no block write and identical addresses for the unchanged tree, every file counted unmodified; (b) the op log of every backup event of the history graph: no block path written while present, and an unchanged tree writes nothing and records the newest complete version's addresses; (c) every crash point of the standard scenarios plus two unchanged-tree scenarios is followed by a resumed backup whose log and entries are judged.",
   note="'Unchanged' means equal to the newest complete version with only interrupted attempts at the same tree in between."),
 'C15': dict(cat='model_checking', tech=E1I, eng='E1-inputs', ref='DESIGN.md 4/C15',
   text="Every tree shape over a names menu, and three wide trees under seven hunk sizes, x every set of at most two patterns from a 15-pattern menu (quick: generated shapes meet single patterns, pairs meet the wide trees): entries stored by backup-with-exclusions, listed with exclusions and restored with exclusions are compared with each other and with the ancestor rule; every pattern set is also given through a pattern file and must decide every probe path the same way. A sub-sweep drives the same operations through the tool's own command-line front end (src/bin/conserve.rs compiled next to the harness).",
   note="Oracle uses the same glob primitive (globset, literal_separator); root entry left out; trees <= 3 (quick) / 4 (thorough) nodes."),
 'C16': dict(cat='model_checking', tech=E1I + "; plus crash-point enumeration for the stitched case", eng='E1-inputs', ref='DESIGN.md 4/C16',
   text="Every tuple of at most three symlink targets (upward, absolute, '.', '..', siblings, dangling) x subtree x exclude x destination state is restored inside a sandbox whose sentinels (content, mode, owner, mtime) must be unchanged; a pre-populated destination must be refused untouched; and for every target and two names a version in which a directory (with nested entries) and two files became that symlink is interrupted at every crash point and restored, restored with exactly the turned path (and a directory below it) as the subtree, restored again over the result, and restored with each single index-hunk read failing. A sub-sweep drives the same operations through the tool's own command-line front end (src/bin/conserve.rs compiled next to the harness).",
   note="Sandbox root mtime not compared. Runs as root."),
 'C17': dict(cat='model_checking', tech=E1H + "; each transition re-executed under other runtime flavours", eng='E1-histories', ref='DESIGN.md 4/C17',
   text="Every backup/delete/gc transition of the history graph is re-executed from the same parent snapshot on multi-thread runtimes with 2 and 8 workers, with reversed block-deletion order and on a runtime that ends the moment the operation returns, and the archives compared byte for byte modulo the two timestamps; state riders replay partially failing multi-version deletes, the next backup and gc with each directory listing (thorough: each read) failing under two forced completion orders, and refused operations on an archive holding someone else's lock.",
   note="Inductive argument over the history; depth 2 (quick) / 3 (thorough). Completion orders of concurrent reads are forced (failure first on the current-thread runtime, failure delayed on two workers), other multi-thread schedules are whatever tokio does."),
 'C18': dict(cat='model_checking', tech=E1I, eng='E1-inputs', ref='DESIGN.md 4/C18',
   text="Three base trees (incl. prefix-named sibling directories and half-named owners) x every set of at most 3 (thorough 4) mutations from a menu of 23: diff with and without include_unchanged and the next backup's change callback are compared with the difference of the two tree models; a further backup that leaves a directory and a file out by pattern must report exactly the files the new version no longer holds as deleted. A sub-sweep drives the same operations through the tool's own command-line front end (src/bin/conserve.rs compiled next to the harness).",
   note="Change callback compared on paths that are regular files (in the new tree for added/changed, in the old one for deleted); directory mtimes are not a change."),
}

checks = []
for i in ids:
    if i not in CHECKS:
        continue
    c = CHECKS[i]
    checks.append({
        'property_id': i,
        'quick_cmd': f'./check {i} quick',
        'thorough_cmd': f'./check {i} thorough',
        'evidence_file': f'/verif/evidence/{i}.json',
        'replay_cmd_template': './check replay {path}',
        'engine': c['eng'],
        'level_claimed': {'category': c['cat'], 'text': c['text'], 'design_ref': c['ref']},
        'level_note': c['note'],
        'technique': c['tech'],
    })

manifest = {
    'version': 1,
    'setup_cmd': './setup.sh',
    'hooks': {
        'guard': 'cargo feature verif_hooks (off by default)',
        'enable': 'harness/Cargo.toml depends on /repo with default-features = false, features = ["verif_hooks"]; ./check builds it with cargo build --release --offline',
        'baseline_off_cmd': 'cd /repo && cargo nextest run --workspace --no-fail-fast --tool-config-file pb:/w/lib/nextest.toml --profile pb --test-threads 8 --offline',
        'source_commits': commits(),
        'add_only': True,
    },
    'engines': [
        {'name': 'E1-inputs', 'path': 'harness/src', 'serves_properties': [i for i in CHECKS if CHECKS[i]['eng'].startswith('E1-inputs')], 'kind_free_text': E1I},
        {'name': 'E1-histories', 'path': 'harness/src/hist.rs', 'serves_properties': [i for i in CHECKS if 'E1-histories' in CHECKS[i]['eng']], 'kind_free_text': E1H},
        {'name': 'E2', 'path': 'harness/src/c03.rs, c04.rs, c05.rs, hook.rs', 'serves_properties': [i for i in CHECKS if 'E2' in CHECKS[i]['eng']], 'kind_free_text': E2C + ' / ' + E2F},
        {'name': 'E3', 'path': 'harness/src/e3.rs', 'serves_properties': [i for i in CHECKS if 'E3' in CHECKS[i]['eng']], 'kind_free_text': E3},
    ],
    'checks': checks,
    'notes': 'All checks drive the real conserve library built from /repo\'s working tree with the verif_hooks feature. Exit codes: 0 held / only listed known findings, 1 VIOLATION, >=2 machinery failure. known_findings.jsonl lists repaired defects (fixed: lines) and unrepaired ones.',
    'not_applicable': [
        {'property_id': i, 'reason': 'check not built yet (build phase in progress); planned, see DESIGN.md section 4'}
        for i in ids if i not in CHECKS
    ],
}
json.dump(manifest, open('/verif/MANIFEST.json', 'w'), indent=1)
print('checks:', [c['property_id'] for c in checks])
